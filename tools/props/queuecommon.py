"""shared generators for the awaitable-queue components (C09: queue<T>, queue<void>; C10: limited_queue<T>).

wire format (one op per line):
  q / qc / qm / q2 : 1 v push | 2 pop | 3 e unblock_pop | 4 size/empty | 5 destroy | 7 k v push_begin | 8 k push_end (q2 only)
  qv               : 1 push | 2 pop | 3 e unblock_pop | 4 | 5
  lq               : 0 limit (first) | 1 v push | 2 pop | 3 e unblock_pop (derived class) | 4 | 5 destroy | 6 e unblock_push
  tq / tlq (ctl)   : 0 limit (tlq) | 1 v1 v2 .. producer thread | 2 n consumer thread | 3 n e unblock_pop thread (tq) |
                     6 n e unblock_push thread (tlq) | 9 c1 c2 .. schedule
"""
import itertools, random
from vlib import Case


class Vals:
    """fresh, pairwise distinct item values (so that a duplicate or a swap is visible)"""
    def __init__(self, base=10):
        self.n = base

    def __call__(self):
        self.n += 1
        return self.n


# ------------------------------------------------------------------ queue<T>
def q_random(rng, n, void=False, p_push=0.4, p_pop=0.4, p_unb=0.1, destroy=True):
    v = Vals()
    ops = []
    for _ in range(n):
        r = rng.random()
        if r < p_push:
            ops.append([1] if void else [1, v()])
        elif r < p_push + p_pop:
            ops.append([2])
        elif r < p_push + p_pop + p_unb:
            ops.append([3, rng.randint(1, 9)])
        elif r < 0.97 or not destroy:
            ops.append([4])
        else:
            ops.append([5])
    return ops


def q_structured(rng, void=False):
    """aimed histories: pops-before-pushes, pushes-before-pops, unblock_pop on the oldest of several pending pops,
    destruction with pending pops, alternation around the empty point"""
    v = Vals()
    P = (lambda: [1]) if void else (lambda: [1, v()])
    k = rng.randint(1, 5)
    j = rng.randint(0, 3)
    style = rng.randrange(8)
    if style == 0:      # pops first, then more pushes than pops
        ops = [[2]] * k + [P() for _ in range(k + j)] + [[2]] * (j + 1)
    elif style == 1:    # pushes first
        ops = [P() for _ in range(k)] + [[2]] * (k + j) + [P() for _ in range(j + 1)]
    elif style == 2:    # several pending pops, unblock some (must hit the oldest), then pushes serve the rest in order
        u = rng.randint(1, k)
        ops = [[2]] * k + [[3, 1 + i] for i in range(u)] + [P() for _ in range(k - u + 1)] + [[3, 9]]
    elif style == 3:    # destroy with pending pops
        ops = [P() for _ in range(j)] + [[2]] * (j + k) + [[4], [5], [2], P()]
    elif style == 4:    # unblock interleaved with pushes
        ops = [[2]] * (k + 2) + [P(), [3, 5], P(), [3, 6]] + [P() for _ in range(k)]
    elif style == 5:    # ping-pong around empty
        ops = []
        for _ in range(k + 2):
            ops += rng.choice([[[2], P()], [P(), [2]], [[2], [2], P(), P()], [P(), P(), [2], [2]]])
    elif style == 6:    # destroy with items left and nothing pending; unblock on nobody
        ops = [[3, 4]] + [P() for _ in range(k)] + [[2]] * j + [[3, 2], [4], [5]]
    else:               # semaphore-like: many pushes, pops down to zero and one beyond (max(1,n)-1 path), push again
        ops = [P() for _ in range(k)] + [[2]] * (k + 1) + [[4]] + [P(), P()] + [[2]] * 3
    return ops


def q_malformed(rng, void=False):
    ops = q_random(rng, rng.randint(2, 8), void)
    bad = rng.choice([[1] if not void else [1, 5], [2, 1], [3], [9], [6, 1], [1, 2, 3], [0, 2], []])
    ops.insert(rng.randrange(len(ops) + 1), bad)
    if rng.random() < 0.5:
        ops += [[5], [2], [4]]
    return ops


def q2_random(rng, n):
    """two-phase pushes: push_begin k v leaves the critical section (possibly holding a parked promise); push_end k
    resolves it.  Several pushes are in flight at once, pops / unblock_pop / plain pushes run in between."""
    v = Vals()
    ops, open_k, nk = [], [], 0
    for _ in range(n):
        r = rng.random()
        if r < 0.30:
            ops.append([2])
        elif r < 0.55:
            nk += 1
            open_k.append(nk)
            ops.append([7, nk, v()])
        elif r < 0.75 and open_k:
            k = open_k.pop(rng.randrange(len(open_k)))
            ops.append([8, k])
        elif r < 0.85:
            ops.append([1, v()])
        elif r < 0.92:
            ops.append([3, rng.randint(1, 9)])
        else:
            ops.append([4])
    rng.shuffle(open_k)
    if rng.random() < 0.15:
        ops.append([5])      # destruction while pushes are in flight: they own their promise and may still resolve it
    ops += [[8, k] for k in open_k]
    return ops


def q2_structured(rng):
    v = Vals()
    k = rng.randint(2, 4)
    style = rng.randrange(4)
    if style == 0:   # k parked pops, k pushes all in flight, finished in reverse / random order
        order = list(range(1, k + 1))
        rng.shuffle(order)
        ops = [[2]] * k + [[7, i, v()] for i in range(1, k + 1)] + [[4]] + [[8, i] for i in order]
    elif style == 1:  # a pop between begin and end must not see the in-flight item; a later push is queued
        ops = [[2], [7, 1, v()], [2], [1, v()], [4], [8, 1], [2]]
    elif style == 2:  # unblock_pop while the oldest waiter is already taken by an in-flight push: hits the next one
        ops = [[2], [2], [2], [7, 1, v()], [3, 7], [7, 2, v()], [8, 2], [8, 1], [3, 8]]
    else:             # begin without waiters is a complete push
        ops = [[7, 1, v()], [8, 1], [2], [2], [7, 2, v()], [7, 2, v()], [8, 2], [8, 2]]
    return ops


def qcb_random(rng, n):
    """callback consumers (op 6 k: completion callback re-pops k times from inside the callback) mixed with plain ops"""
    v = Vals()
    ops = []
    for _ in range(n):
        r = rng.random()
        if r < 0.42:
            ops.append([1, v()])
        elif r < 0.62:
            ops.append([6, rng.choice([0, 1, 2, 3, 5])])
        elif r < 0.72:
            ops.append([2])
        elif r < 0.84:
            ops.append([3, rng.randint(1, 9)])
        elif r < 0.97:
            ops.append([4])
        else:
            ops.append([5])
    return ops


def qcb_structured(rng):
    v = Vals()
    P = lambda: [1, v()]
    k = rng.randint(1, 4)
    style = rng.randrange(5)
    if style == 0:    # the seeded-demo shape: item queued, callback consumer starts, pushes are handed to it one by one
        ops = [P(), [6, k + 3]] + [P() for _ in range(k)] + [[3, 7], P(), [4], [5]]
    elif style == 1:  # consumer waits first; every push re-enters pop() from the callback
        ops = [[6, k]] + [P() for _ in range(k + 2)] + [[2], [4]]
    elif style == 2:  # several items queued: the chain drains them inside one op, then parks
        ops = [P() for _ in range(k + 1)] + [[6, k + 2], [4], P(), P()]
    elif style == 3:  # two callback consumers and a plain pop compete: service stays in arrival order
        ops = [[6, 2], [2], [6, 1]] + [P() for _ in range(6)] + [[3, 4], [3, 5]]
    else:             # unblock_pop re-enters too; budget 0 consumer stops
        ops = [[6, 0], [6, 2], [3, 1], [3, 2], P(), P(), [3, 3], [5], [6, 1]]
    return ops


def qs_case(rng):
    """lvalue pushes of a few recurring objects: pops waiting first (hand-over must not consume the caller's object), then the
    same objects pushed again"""
    base = q_structured(rng) if rng.random() < 0.6 else q_random(rng, rng.choice([6, 10, 16]), False, 0.45, 0.4)
    return [[1, 11 + o[1] % 3] if (o and o[0] == 1 and len(o) == 2) else o for o in base]


def qx_case(rng):
    """pushes whose item constructor throws (negative value), issued while nobody waits; a few while somebody waits (rejected)"""
    v = Vals()
    ops, items, waiters = [], 0, 0
    for _ in range(rng.choice([6, 10, 16])):
        r = rng.random()
        if r < 0.25 and (waiters == 0 or rng.random() < 0.15):
            ops.append([1, -v()])
        elif r < 0.55:
            ops.append([1, v()])
            if waiters: waiters -= 1
            else: items += 1
        elif r < 0.85:
            ops.append([2])
            if items: items -= 1
            else: waiters += 1
        elif r < 0.92:
            ops.append([3, rng.randint(1, 9)])
            if waiters: waiters -= 1
        else:
            ops.append([4])
    return ops


def gen_c09_seq(seed, tier):
    rng = random.Random(seed * 104729 + 9)
    n = 60 if tier == "quick" else 700
    cases = []
    i = 0
    for eng in ("q", "qc", "qm", "qv"):
        void = eng == "qv"
        for _ in range(n):
            cases.append(Case(eng, "%s_s%d" % (eng, i), q_structured(rng, void))); i += 1
        for _ in range(n):
            L = rng.choice([4, 8, 14, 25])
            bias = rng.choice([(0.4, 0.4), (0.6, 0.25), (0.25, 0.6)])
            cases.append(Case(eng, "%s_r%d" % (eng, i), q_random(rng, L, void, bias[0], bias[1]))); i += 1
        for _ in range(max(4, n // 8)):
            cases.append(Case(eng, "%s_m%d" % (eng, i), q_malformed(rng, void))); i += 1
    for _ in range(n):
        cases.append(Case("qs", "qs_%d" % i, qs_case(rng))); i += 1
        cases.append(Case("qx", "qx_%d" % i, qx_case(rng))); i += 1
    for _ in range(n):
        cases.append(Case("qcb", "qcb_s%d" % i, qcb_structured(rng))); i += 1
        cases.append(Case("qcb", "qcb_r%d" % i, qcb_random(rng, rng.choice([5, 9, 15, 24])))); i += 1
    m = 40 if tier == "quick" else 400
    for _ in range(m):
        cases.append(Case("q2", "q2_s%d" % i, q2_structured(rng))); i += 1
        cases.append(Case("q2", "q2_r%d" % i, q2_random(rng, rng.choice([6, 10, 16])))); i += 1
    if tier != "quick":
        # exhaustive: every history of length <= 6 over {push, pop, unblock_pop, destroy} for queue<int> and queue<void>
        for L in range(1, 7):
            for w in itertools.product((1, 2, 3, 5), repeat=L):
                if 5 in w[:-2]:
                    continue
                v = Vals()
                cases.append(Case("q", "q_x%d" % i, [[1, v()] if o == 1 else [3, 7] if o == 3 else [o] for o in w])); i += 1
                if L <= 5:
                    cases.append(Case("qv", "qv_x%d" % i, [[1] if o == 1 else [3, 7] if o == 3 else [o] for o in w])); i += 1
    return cases


# ------------------------------------------------------------------ limited_queue<T>
def lq_random(rng, limit, n, p_push=0.45, p_pop=0.35, p_ubp=0.1, p_ubq=0.04):
    v = Vals()
    ops = [[0, limit]]
    for _ in range(n):
        r = rng.random()
        if r < p_push:
            ops.append([1, v()])
        elif r < p_push + p_pop:
            ops.append([2])
        elif r < p_push + p_pop + p_ubp:
            ops.append([6, rng.randint(1, 9)])
        elif r < p_push + p_pop + p_ubp + p_ubq:
            ops.append([3, rng.randint(1, 9)])
        elif r < 0.98:
            ops.append([4])
        else:
            ops.append([5])
    return ops


def lq_structured(rng, limit):
    """histories around size = limit-1, limit, limit+k with several blocked producers"""
    v = Vals()
    P = lambda: [1, v()]
    k = rng.randint(1, 4)
    style = rng.randrange(9)
    ops = [[0, limit]]
    if style == 0:    # fill to limit-1, limit, then k blocked; drain everything and one more
        ops += [P() for _ in range(limit - 1)] + [[4], P(), [4]] + [P() for _ in range(k)] + [[2]] * (limit + k + 1)
    elif style == 1:  # k blocked, pops complete exactly the oldest blocked push, one per pop
        ops += [P() for _ in range(limit + k)] + [[2], [4]] * (k + 1) + [P(), P()]
    elif style == 2:  # unblock_push withdraws the oldest blocked item; later pops never deliver it
        u = rng.randint(1, k)
        ops += [P() for _ in range(limit + k)] + [[6, 1 + i] for i in range(u)] + [[2]] * (limit + k) + [[6, 9]]
    elif style == 3:  # unblock_push between pops
        ops += [P() for _ in range(limit + k + 1)] + [[2], [6, 3], [2], [6, 4], [2]] + [[2]] * (limit + 1)
    elif style == 4:  # consumers waiting first: pushes are handed over and never count against the limit
        ops += [[2]] * k + [P() for _ in range(k + limit + 2)] + [[2]] * 2
    elif style == 5:  # destroy with blocked producers and items
        ops += [P() for _ in range(limit + k)] + [[2], [5], P(), [2]]
    elif style == 6:  # destroy with waiting consumers; unblock_pop via the derived class
        ops += [[2]] * (k + 1) + [[3, 5], P(), [4], [5]]
    elif style == 7:  # oscillate around the limit
        ops += [P() for _ in range(limit)]
        for _ in range(k + 2):
            ops += rng.choice([[P(), [2]], [[2], P()], [P(), P(), [2], [2]], [P(), [6, 2], [2]]])
        ops += [[2]] * (limit + 2)
    else:             # refill after full drain
        ops += [P() for _ in range(limit + 1)] + [[2]] * (limit + 2) + [P() for _ in range(limit + 2)] + [[2]] * 2 + [[4]]
    return ops


def lq_malformed(rng):
    choice = rng.randrange(4)
    if choice == 0:
        return [[1, 5], [2], [0, 2], [1, 6], [2]]          # ops before create are rejected
    if choice == 1:
        return [[0, -1], [0, 2], [1, 5], [2, 2], [7], [2]]
    if choice == 2:
        return [[0, 1], [1, 5], [5], [1, 6], [2], [6, 1], [0, 3]]
    return [[0, 2], [1], [6], [3], [1, 7], [1, 8], [1, 9], [2]]


def gen_c10_seq(seed, tier):
    rng = random.Random(seed * 15485863 + 10)
    n = 45 if tier == "quick" else 500
    cases = []
    i = 0
    for limit in (1, 2, 3, 4, 7, 16):
        for _ in range(n):
            cases.append(Case("lq", "lq_s%d" % i, lq_structured(rng, limit))); i += 1
        for _ in range(n // 2):
            L = rng.choice([6, 12, 24, 40])
            bias = rng.choice([(0.45, 0.35), (0.65, 0.2), (0.3, 0.5)])
            cases.append(Case("lq", "lq_r%d" % i, lq_random(rng, limit, L, bias[0], bias[1]))); i += 1
    for _ in range(12 if tier == "quick" else 60):
        cases.append(Case("lq", "lq_m%d" % i, lq_malformed(rng))); i += 1
    # move-only (unique_ptr<int>, lqm) and move-observable (MoveZero: the move leaves the source empty, lqs) items pushed as
    # rvalues through the blocking path, the unblock_push path and the hand-over path
    for eng in ("lqm", "lqs", "lqv"):
        for limit in (1, 2, 3):
            for _ in range(max(6, n // 3)):
                cases.append(Case(eng, "%s_s%d" % (eng, i), lq_structured(rng, limit))); i += 1
            for _ in range(max(3, n // 6)):
                cases.append(Case(eng, "%s_r%d" % (eng, i), lq_random(rng, limit, rng.choice([8, 16, 30]), 0.6, 0.25))); i += 1
    if tier != "quick":
        # exhaustive: limits 1..3, every history of length <= 7 over {push, pop, unblock_push}; length <= 5 with unblock_pop/destroy
        for limit in (1, 2, 3):
            for L in range(1, 8):
                for w in itertools.product((1, 2, 6), repeat=L):
                    v = Vals()
                    cases.append(Case("lq", "lq_x%d" % i, [[0, limit]] + [[1, v()] if o == 1 else [6, 7] if o == 6 else [o] for o in w])); i += 1
            for L in range(1, 6):
                for w in itertools.product((1, 2, 3, 5, 6), repeat=L):
                    if 5 in w[:-1] or not (3 in w or 5 in w):
                        continue
                    v = Vals()
                    cases.append(Case("lq", "lq_y%d" % i, [[0, limit]] + [[1, v()] if o == 1 else [o, 7] if o in (3, 6) else [o] for o in w])); i += 1
    return cases


# ------------------------------------------------------------------ controlled threads (ctl_queue.cpp)
def thr_case(rng, engine, name, limit=None, unblock=True):
    np_ = rng.choice([1, 2, 2, 3, 3])
    nc = rng.choice([1, 1, 2, 2, 3, 3])
    per = [rng.randint(1, 4) for _ in range(np_)]
    total = sum(per)
    decl = []
    for p in range(np_):
        decl.append([1] + [100 * (p + 1) + k for k in range(per[p])])
    destroy = rng.random() < 0.2
    # pops: mostly balanced (every pop can complete); sometimes fewer, rarely more (deadlock observation, or cancellation
    # by the destroyer thread)
    want = total if rng.random() < (0.5 if destroy else 0.8) else max(0, total + rng.choice([-2, -1, 1, 2]))
    cnt = [0] * nc
    for _ in range(want):
        cnt[rng.randrange(nc)] += 1
    for c in range(nc):
        decl.append([2, cnt[c]])
    if unblock and rng.random() < 0.3:
        decl.append([3, rng.randint(1, 2), rng.randint(1, 9)])
    if engine == "tlq" and rng.random() < 0.3:
        decl.append([6, rng.randint(1, 2), rng.randint(1, 9)])
    if rng.random() < 0.2:
        decl.append([4, rng.randint(1, 3)])
    if destroy:
        decl.append([5])
    rng.shuffle(decl)
    L = rng.choice([0, 6, 12, 20, 40])
    style = rng.random()
    if style < 0.55:
        sched = [rng.randint(0, 6) for _ in range(L)]
    elif style < 0.8:
        sched = []
        while len(sched) < L:
            sched += [rng.randint(0, 6)] * rng.randint(1, 5)
    else:
        sched = [rng.choice([6, 5, 4, 0]) for _ in range(L)]
    ops = ([[0, limit]] if limit is not None else []) + decl + [[9] + sched]
    return Case(engine, name, ops)


# small thread sets whose every schedule prefix is enumerated: races for the LAST waiter / the LAST blocked push
RACE_CFGS = {
    "tq": [[[2, 2], [3, 1, 7], [1, 101, 102]],            # unblock_pop races push for the only waiting pop
           [[2, 1], [2, 1], [3, 2, 7], [1, 101]],
           [[1, 101, 102], [2, 2], [4, 2]],
           [[2, 2], [1, 101], [5]]],                       # the destroyer cancels what is left waiting
    "tlq": [[[1, 101, 102, 103], [2, 2], [6, 1, 7]],      # unblock_push races pop for the only blocked push
            [[1, 101, 102], [1, 201], [2, 3]],
            [[2, 2], [3, 1, 7], [1, 101, 102]],
            [[1, 101, 102, 103], [2, 1], [5]]],
}


def gen_ctl(seed, tier, engine):
    rng = random.Random(seed * 32452843 + (901 if engine == "tq" else 1001))
    n = 260 if tier == "quick" else 3000
    cases = []
    for i in range(n):
        limit = None if engine == "tq" else rng.choice([1, 1, 2, 2, 3, 4])
        cases.append(thr_case(rng, engine, "%s%d" % (engine, i), limit))
    # the same scenarios with move-only / move-observable items (pushed as rvalues)
    for eng in (("tqm",) if engine == "tq" else ("tlqm", "tlqs")):
        for i in range(n // 4):
            limit = None if engine == "tq" else rng.choice([1, 1, 2, 3])
            c = thr_case(rng, engine, "%s%d" % (eng, i), limit)
            c.engine = eng
            cases.append(c)
    j = 0
    for decl in RACE_CFGS[engine]:
        for pre in itertools.product(range(3), repeat=4 if tier == "quick" else 7):
            lim = [[0, 1]] if engine == "tlq" else []
            cases.append(Case(engine, "%sr%d" % (engine, j), lim + decl + [[9] + list(pre)])); j += 1
    if tier != "quick":
        cfgs = [[[1, 101, 102], [2, 2]], [[1, 101], [1, 201], [2, 1], [2, 1]], [[2, 2], [1, 101, 102]],
                [[1, 101, 102], [2, 1], [2, 1]], [[1, 101], [1, 201], [2, 2]]]
        for decl in cfgs:
            for pre in itertools.product(range(3), repeat=7):
                lim = [[0, 1 + (j % 2)]] if engine == "tlq" else []
                cases.append(Case(engine, "%sx%d" % (engine, j), lim + decl + [[9] + list(pre)])); j += 1
    return cases


def ctl_nontrivial(case, model_obs):
    tids = [l.split()[0] for l in model_obs if len(l.split()) == 2 and l.split()[1] in ("70", "71", "72", "73")]
    switches = sum(1 for a, b in zip(tids, tids[1:]) if a != b)
    return switches >= 3


# ------------------------------------------------------------------ classification
def parse(l):
    try:
        return [int(x) for x in l.split()]
    except ValueError:
        return None


def signature(case, impl_obs, model_obs):
    last = impl_obs[-1] if impl_obs else ""
    if last.startswith("CRASH"):
        kind = last.split()[1] if len(last.split()) > 1 else "crash"
    elif last == "HANG":
        kind = "HANG"
    elif any(l.startswith("777") for l in impl_obs) and not any(l.startswith("777") for l in model_obs):
        kind = "deadlock"
    else:
        kind = "oracle"
    return "%s:%s" % (case.engine, kind)
