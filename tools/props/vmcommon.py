"""Shared generator pieces for the CoroVM engine (C05, C04): scripted coroutine programs.

A case line is `owner opcode args` (owner 0 = normal code, c >= 1 = coroutine c), see decode_instr in coq/CoroVMDefs.v:
 1 k Emit | 2 Pause | 3 c Make | 4 c Drop | 5 c aw Detach | 6 c f Start | 7 c f aw StartP | 8 c CoAwait | 9 f MkFut
 10 f kind v aw Resolve | 11 f Await | 12 v Ret | 13 e Throw
Events (observation lines): 1 Run | 2 Susp | 3 Fin c k v | 4 Emit | 5 Enq c by why | 6 Deq | 7 Idle act qlen | 8 Bad | 9 Mk
 10 Free | 11 Got who src k v | 12 RetB | 13 Back | 14 End stuck unstarted | 15 Nest r c | 16 Bind c k x | 17 Set who f k v"""
import os, random, tempfile
import vlib
from vlib import Case


def close_case(c):
    """append to the main script: resolve every future created by MkFut (no-op `false` when already resolved) and drop
    every coroutine object (rejected when it was started), so that every generated program runs to completion"""
    futs, coros = [], []
    for o in c.ops:
        if len(o) >= 3 and o[1] == 9 and o[2] not in futs and o[2] >= 0:
            futs.append(o[2])
        if len(o) >= 3 and o[1] in (3, 5, 6, 7, 8) and o[2] not in coros and o[2] >= 1:
            coros.append(o[2])
    tail = [[0, 10, f, 0, 900 + f, 0] for f in futs] + [[0, 4, k] for k in coros]
    body = [list(o) for o in c.ops]
    while body and body[-1] in tail:
        body.pop()
    return Case(c.engine, c.name, body + tail, c.meta)


class Prog:
    """structured random program: every coroutine is started once by a unique starter; a started-future is awaited only by
    the starter (no wait cycles); promise futures are created up front by normal code"""

    def __init__(self, rng, ncoro, nfut, steps, w):
        self.rng, self.w = rng, w
        self.lines = []
        self.ncoro, self.nfut = ncoro, nfut
        self.next_fut = nfut            # ids >= nfut are futures produced by start()
        self.unstarted = list(range(1, ncoro + 1))
        self.steps = steps
        self.completion = w.get("completion", 0.3)

    def emit(self, owner, *a):
        self.lines.append([owner] + list(a))

    def body(self, me, depth):
        rng, w = self.rng, self.w
        k = rng.randint(1, self.steps)
        mine = []   # futures of children I started
        marker = me * 100
        for _ in range(k):
            r = rng.random()
            marker += 1
            if r < w["spawn"] and self.unstarted:
                c = self.unstarted.pop(rng.randrange(len(self.unstarted)))
                modes = ["detach", "detachaw", "start", "startp", "startpaw", "coawait"] if me else ["detach", "start", "startp"]
                mode = rng.choice(w.get("modes", modes))
                if me == 0 and mode in ("detachaw", "startpaw", "coawait"):
                    mode = "detach"
                if rng.random() < w.get("premake", 0.0):
                    self.emit(me, 3, c)
                if mode == "detach": self.emit(me, 5, c, 0)
                elif mode == "detachaw": self.emit(me, 5, c, 1)
                elif mode == "start":
                    f = self.next_fut; self.next_fut += 1
                    self.emit(me, 6, c, f); mine.append(f)
                elif mode in ("startp", "startpaw"):
                    f = rng.randrange(self.nfut) if self.nfut else 0
                    self.emit(me, 7, c, f, 1 if mode == "startpaw" else 0)
                    if rng.random() < 0.5:
                        # the promise may have been claimed already: then c is still unstarted, start it for real
                        self.emit(me, 5, c, 0)
                else: self.emit(me, 8, c)
                self.body(c, depth + 1)
            elif r < w["spawn"] + w["pause"] and me:
                self.emit(me, 2)
            elif r < w["spawn"] + w["pause"] + w["resolve"] and self.nfut:
                f = rng.randrange(self.nfut)
                kind = rng.choice([0, 0, 0, 1, 2])
                self.emit(me, 10, f, kind, marker, 1 if (me and rng.random() < w["aw"]) else 0)
            elif r < w["spawn"] + w["pause"] + w["resolve"] + w["await"] and me:
                if mine and rng.random() < 0.5:
                    self.emit(me, 11, mine.pop(rng.randrange(len(mine))))
                elif self.nfut:
                    self.emit(me, 11, rng.randrange(self.nfut))
            else:
                self.emit(me, 1, marker)
        if me and rng.random() < self.completion:
            if rng.random() < 0.6: self.emit(me, 12, marker + 50)
            else: self.emit(me, 13, marker + 60)

    def build(self):
        for f in range(self.nfut):
            self.emit(0, 9, f)
        self.body(0, 0)
        while self.unstarted and self.rng.random() < 0.8:
            c = self.unstarted.pop(0)
            self.emit(0, 5, c, 0)
            self.body(c, 1)
        return self.lines


W_DEFAULT = {"spawn": 0.28, "pause": 0.17, "resolve": 0.2, "await": 0.2, "aw": 0.4}


def gen_random(rng, engine, name, w=None, ncoro=None, steps=None):
    w = dict(W_DEFAULT, **(w or {}))
    nc = ncoro or rng.randint(2, 8)
    p = Prog(rng, nc, rng.randint(0, 4), steps or rng.randint(1, 12), w)
    lines = p.build()
    rng2 = rng.random()
    if rng2 < 0.06:   # malformed stream: a junk line somewhere
        junk = rng.choice([[0, 99], [1], [0, 2], [0, 8, 1], [0, 11, 0], [2, 5, 0, 0], [1, 10, 77, 0, 1, 0], [0, 6, 1, 0], [1, 3, 1],
                           [0, 12, 3], [1, 7, 2, 55, 0], [0, 4, 9], [1, 5, -3, 0]])
        lines.insert(rng.randrange(len(lines) + 1), junk)
    return close_case(Case(engine, name, lines))


def lenient_ok(case, impl_obs):
    """re-evaluates the C05 oracle in its lenient form (nested start() counts as a suspension of the caller)"""
    d = tempfile.mkdtemp(prefix="vmsig.", dir="/var/tmp")
    try:
        c = Case("vm5l", "sig", case.ops)
        cp, op = os.path.join(d, "c.txt"), os.path.join(d, "o.txt")
        vlib.write_cases([c], cp)
        vlib.write_obs({"sig": impl_obs}, ["sig"], op)
        return vlib.oracle(cp, op).get("sig") == "OK"
    finally:
        import shutil
        shutil.rmtree(d, ignore_errors=True)


def events(obs, code):
    out = []
    for l in obs:
        a = l.split()
        if a and a[0] == str(code):
            out.append(a)
    return out
