"""C13 — generator: the consumer sees exactly the yielded sequence, in every access style (generator.h, iterator.h)."""
import itertools, random
from vlib import Case

RULE = ("scripted generator bodies (Yield/AwaitReady/AwaitPending/Throw/Return/Guard/Unguard/YieldNull/YieldEcho) read by a consumer "
        "that mixes the access styles next()+value(), iterator, call->future (blocking), co_await next(), call->future + co_await "
        "has_value(), double bool conversion; pending awaits completed by the consumer's thread or a fresh thread at generated "
        "positions, synchronous accesses blocked meanwhile on a worker thread; early destruction while parked / never started / "
        "finished; repeated reads after the end; a small malformed stream (ops while busy, wrong completion id, double create). "
        "A case is non-trivial when the model delivers >= 2 results and the case uses >= 2 distinct styles or a pending await or an "
        "exception or argument-reading instructions; distinct = distinct (engine, op list)")
SCOPE = ("generator<int> / generator<int,int>: promise_type hand-over record, yield_suspend/yield_null, final_suspend/return_void/"
         "unhandled_exception, next_sync/next_async/next_future, next_awt (bool, co_await), generator_iterator begin/++/!=/*, "
         "operator(), value(), done(), operator bool, destructor")
ASSUMPTIONS = ["single consumer: no access is issued while another one is outstanding (such ops are rejected by harness and model alike)",
               "the generator is not destroyed while its body is suspended on a pending await (the awaited future lives in the frame: "
               "the library asserts 'Destroy of pending future'); the check rejects such ops",
               "needs the guarded hook gen_block in generator::next_sync (hooks/gen.patch); without it blocked accesses are detected by a 400 ms timeout"]

STYLES0 = [0, 1, 2, 3, 4, 5, 6]
STYLES1 = [0, 2, 3, 4, 5, 6]


def gen_script(rng, ha, n, pend_p, end_kind):
    sc = []
    nk = 0
    gid = 100
    for i in range(n):
        r = rng.random()
        if r < 0.42:
            sc += [1, rng.randint(-5, 60)]
        elif r < 0.50:
            sc += [2, rng.randint(1, 9)]
        elif r < 0.50 + pend_p:
            nk += 1
            sc += [3, nk if rng.random() < 0.8 else 1]
        elif r < 0.80:
            gid += 1
            sc += [6, gid]
        elif r < 0.86:
            sc += [7, 0]
        elif ha and r < 0.93:
            sc += [8, 0]
        elif ha:
            sc += [9, 0]
        else:
            sc += [1, rng.randint(0, 60)]
    if end_kind == 1:
        sc += rng.choice([[4, rng.randint(1, 9)], [4, rng.randint(1, 9)], [20, 0], [21, 0], [22, 0]])
    elif end_kind == 2:
        sc += [5, 0]
        if rng.random() < 0.5:
            sc += [1, 999]     # unreachable yield after co_return
    elif end_kind == 3:
        sc += [12, 0]          # unknown instruction = no-op
    return sc


class Sim:
    """position-only simulation of the body, to know when a completion is needed"""
    def __init__(self, sc):
        self.ins = [(sc[i], sc[i + 1]) for i in range(0, len(sc) - 1, 2)]
        self.i = 0
        self.ended = False

    def advance(self):
        while self.i < len(self.ins):
            k, a = self.ins[self.i]
            self.i += 1
            if k in (1, 9, 10):
                return ("yield", 0)
            if k == 3:
                return ("pend", a)
            if k in (4, 5, 20, 21, 22):
                self.ended = True
                return ("end", 0)
        self.ended = True
        return ("end", 0)


def close_case(c):
    """used while shrinking: append the completions an outstanding access still needs, so that the oracle's
    closed-case rule (no trailing Pending) stays meaningful on sub-sequences"""
    ops = [list(o) for o in c.ops]
    if c.engine.startswith("genc") or c.engine == "gend" or not ops or not ops[0] or ops[0][0] != 0 or len(ops[0]) % 2 != 1:
        return c
    ha = c.engine == "gen1"
    sc = ops[0][1:]
    sim = Sim(sc if ha else [x if (i % 2 or x not in (8, 9)) else 12 for i, x in enumerate(sc)])
    waiting = None      # id of the pending await the body is suspended on
    live = True
    for o in ops[1:]:
        if not o or not live: continue
        if o[0] == 1 and len(o) == 3 and waiting is None and 0 <= (o[1] - 10 if 10 <= o[1] <= 16 else o[1]) <= 6 and not (ha and o[1] in (1, 11)):
            if not sim.ended:
                kind, k = sim.advance()
                waiting = k if kind == "pend" else None
        elif o[0] == 2 and len(o) == 4 and waiting is not None and o[1] == waiting:
            kind, k = sim.advance()
            waiting = k if kind == "pend" else None
        elif o[0] == 3 and len(o) == 1 and waiting is None:
            live = False
    while waiting is not None:
        ops.append([2, waiting, 1, 0])
        kind, k = sim.advance()
        waiting = k if kind == "pend" else None
    return Case(c.engine, c.name, ops, c.meta)


def gen_case(rng, engine, name, styles, script, n_acc, destroy_early, malformed, peek_p=0.15, coro_p=0.0):
    ha = engine == "gen1"
    has_pend = any(script[i] == 3 for i in range(0, len(script) - 1, 2))
    ops = [[0] + script]
    sim = Sim(script if ha else [x if (i % 2 or x not in (8, 9)) else 12 for i, x in enumerate(script)])
    after_end = 0
    if malformed and rng.random() < 0.3:
        ops.append([2, 1, 0, 0])          # completion with nothing pending
    for a in range(n_acc):
        if sim.ended:
            after_end += 1
            if after_end > 3:
                break
        y = rng.choice(styles)
        if coro_p and rng.random() < coro_p and not (y == 2 and has_pend):
            y += 10        # the same style issued from inside a running coroutine (a blocking future wait on a
                           # pending body is excluded: the library asserts "Blocking wait in a coroutine")
        ops.append([1, y, rng.randint(100, 140) if ha else 0])
        if sim.ended:
            continue
        kind, k = sim.advance()
        while kind == "pend":
            if malformed and rng.random() < 0.4:
                ops.append(rng.choice([[1, rng.choice(styles), 7], [3], [4], [2, k + 17, 1, 0], [0, 1, 1]]))
            ops.append([2, k, rng.randint(1, 50), rng.randint(0, 1)])
            kind, k = sim.advance()
        if rng.random() < peek_p:
            ops.append([4])
        if destroy_early is not None and a + 1 >= destroy_early:
            break
    if malformed and rng.random() < 0.3:
        ops.append([1, 9, 0])
    ops.append([3])
    if malformed and rng.random() < 0.5:
        ops.append(rng.choice([[3], [1, 0, 0], [4], [0, 1, 5]]))
    return Case(engine, name, ops)


FIXED_SCRIPTS = [
    [1, 1, 1, 2, 1, 3],
    [6, 101, 1, 1, 6, 102, 1, 2, 7, 0, 1, 3],
    [1, 1, 3, 1, 1, 2, 3, 2, 3, 3, 1, 3],
    [6, 101, 1, 1, 1, 2, 4, 7],
    [3, 1, 1, 1, 6, 101, 3, 2, 4, 3],
    [2, 5, 1, 1, 5, 0, 1, 9],
    [],
    [3, 1],
    [4, 2],
]
# bodies ending with the library's own await_canceled_exception (thrown, derived, or from a dropped promise)
CANCEL_SCRIPTS = [
    [1, 1, 1, 2, 20, 0],
    [6, 101, 1, 1, 3, 1, 21, 0],
    [1, 1, 22, 0, 1, 2],
    [22, 0],
    [3, 1, 1, 1, 20, 0],
]
FIXED_SCRIPTS1 = [
    [8, 0, 1, 1, 9, 0, 1, 3],
    [1, 1, 8, 0, 9, 0, 3, 1, 9, 0, 8, 0, 1, 2],
    [9, 0, 9, 0, 4, 3],
]


def gen(seed, tier):
    rng = random.Random(seed * 104729 + 13)
    quick = tier == "quick"
    cases = []
    b = 0
    # uniform-style and exhaustive mixed-style sweeps over fixed scripts
    for eng, scripts, styles in (("gen0", FIXED_SCRIPTS + CANCEL_SCRIPTS, STYLES0), ("gen1", FIXED_SCRIPTS + FIXED_SCRIPTS1 + CANCEL_SCRIPTS[:2], STYLES1)):
        for sc in scripts:
            for y in styles:
                cases.append(gen_case(rng, eng, "u%d" % b, [y], sc, 8, None, False)); b += 1
            for d in (0, 1, 2):
                cases.append(gen_case(rng, eng, "d%d" % b, styles, sc, 8, d, False)); b += 1
    if not quick:
        for eng, scripts, styles in (("gen0", FIXED_SCRIPTS[:6], STYLES0), ("gen1", FIXED_SCRIPTS1, STYLES1)):
            for sc in scripts:
                for combo in itertools.product(styles, repeat=3):
                    seq = list(combo)
                    it = iter(seq * 4)
                    class R:   # deterministic style chooser for this sweep
                        def choice(self, l): return next(it) if l is styles else rng.choice(l)
                        def random(self): return 0.99
                        def randint(self, a, c): return rng.randint(a, c)
                    cases.append(gen_case(R(), eng, "x%d" % b, styles, sc, 7, None, False)); b += 1
    # consumer inside a running coroutine: every style, fixed scripts
    for eng, scripts, styles in (("gen0", FIXED_SCRIPTS, STYLES0), ("gen1", FIXED_SCRIPTS1, STYLES1)):
        for sc in scripts:
            for y in styles:
                cases.append(gen_case(rng, eng, "k%d" % b, [y], sc, 8, None, False, coro_p=1.0)); b += 1
            cases.append(gen_case(rng, eng, "k%d" % b, styles, sc, 8, None, False, coro_p=0.5)); b += 1
    # engine gent: generator<MV> (move-observable value); temporaries (kind 1) and a reused local (kind 10)
    T_SCRIPTS = [
        [1, 5, 10, 1, 10, 2, 10, 3, 1, 9, 10, 4],
        [10, 1, 1, 7, 10, 1, 10, 1, 3, 1, 10, 1],
        [6, 101, 1, 1, 10, 2, 3, 1, 1, 3, 10, 4, 4, 7],
        [10, 3, 10, 3, 10, 3],
    ]
    for sc in T_SCRIPTS:
        for y in STYLES0:
            cases.append(gen_case(rng, "gent", "t%d" % b, [y], sc, 8, None, False)); b += 1
        for _ in range(3):
            cases.append(gen_case(rng, "gent", "t%d" % b, STYLES0, sc, 8, rng.choice([None, None, 2]), False, coro_p=0.2)); b += 1
    for i in range(20 if quick else 300):
        sc = []
        for _ in range(rng.randint(2, 8)):
            r = rng.random()
            if r < 0.3: sc += [1, rng.randint(1, 50)]
            elif r < 0.75: sc += [10, rng.randint(1, 9)]
            elif r < 0.85: sc += [3, 1]
            elif r < 0.95: sc += [6, 100 + len(sc)]
            else: sc += [2, 3]
        if rng.random() < 0.2: sc += [4, 5]
        cases.append(gen_case(rng, "gent", "t%d" % b, rng.choice([STYLES0, [2, 4], [2], [0, 2]]), sc, rng.randint(2, 9), rng.choice([None, None, 3]), False, coro_p=0.1)); b += 1
    # smoke engine: the same bodies with the frame in a reusable_storage
    for k, sc in enumerate(FIXED_SCRIPTS):
        cases.append(gen_case(rng, "gens", "s%d" % k, STYLES0, sc, 8, rng.choice([None, 1, 2]), False))
    n = 260 if quick else 3500
    for i in range(n):
        eng = "gen0" if i % 2 == 0 else "gen1"
        if i % 10 == 9: eng = "gens"
        ha = eng == "gen1"
        styles_all = STYLES1 if ha else STYLES0
        mode = rng.random()
        if mode < 0.25:
            styles = [rng.choice(styles_all)]
        elif mode < 0.5:
            styles = rng.sample(styles_all, 2)
        else:
            styles = styles_all
        sc = gen_script(rng, ha, rng.randint(0, 9), rng.choice([0.0, 0.12, 0.25]), rng.choice([0, 0, 1, 2, 3]))
        de = rng.choice([None, None, 0, 1, 2, 3])
        cases.append(gen_case(rng, eng, "g%d" % i, styles, sc, rng.randint(1, 10), de, rng.random() < 0.2, coro_p=rng.choice([0.0, 0.0, 0.3, 1.0])))
    return cases


def nontrivial(case, model_obs):
    results = 0
    pend = False
    exc = False
    for l in model_obs:
        a = l.split()
        if len(a) > 1 and a[0] == "0":
            if a[1] in ("1", "2", "3", "4"): results += 1
            if a[1] == "5": pend = True
            if a[1] == "2": exc = True
    styles = set(o[1] for o in case.ops if o and o[0] == 1 and len(o) == 3)
    argi = any(o and o[0] == 0 and any(o[i] in (8, 9) for i in range(1, len(o), 2)) for o in case.ops) and case.engine == "gen1"
    return results >= 2 and (len(styles) >= 2 or pend or exc or argi)


def signature(case, impl_obs, model_obs):
    last = impl_obs[-1] if impl_obs else ""
    if last.startswith("CRASH") and len(last.split()) > 1:
        kind = last.split()[1]
    elif last in ("HANG", "MISSING"):
        kind = last
    else:
        kind = "oracle"
    return "%s:%s" % (case.engine, kind)


def gen_ctl(seed, tier):
    """engine genc: consumer thread + completer thread under the controlled-schedule driver; every case carries a
    schedule; the same (script, accesses) pair is run under several schedules"""
    rng = random.Random(seed * 611953 + 131)
    quick = tier == "quick"
    cases = []
    b = 0
    scripts0 = [
        [1, 1, 3, 1, 1, 2, 3, 2, 3, 3, 1, 3],
        [3, 1, 6, 101, 1, 1, 3, 2, 4, 3],
        [6, 101, 3, 1, 1, 1, 6, 102, 3, 2, 1, 2, 7, 0, 3, 3],
        [3, 1, 3, 2, 5, 0],
        [1, 5, 2, 9, 3, 1, 1, 6],
        [3, 1, 1, 1, 20, 0],
        [1, 1, 3, 1, 22, 0],
    ]
    scripts1 = [
        [8, 0, 3, 1, 1, 1, 9, 0, 3, 2, 1, 3],
        [3, 1, 8, 0, 9, 0, 9, 0, 4, 3],
    ]
    def one(eng, sc, styles, nacc, nsched):
        nonlocal b
        ha = eng == "genc1"
        ops = [[0] + sc]
        if 8 in styles:
            k = rng.randint(0, 3)
            for _ in range(k):
                ops.append([1, rng.choice([y for y in styles if y not in (7, 8)] or [6]), rng.randint(100, 140) if ha else 0])
            ops.append([1, 8, rng.randint(100, 140) if ha else 0])
            ops.append([1, rng.choice([0, 2, 3, 6]), 0])        # End is sticky after the chain
        elif 7 in styles and not ha:
            k = rng.randint(0, 2)
            for _ in range(k):
                ops.append([1, rng.choice([y for y in styles if y != 7] or [1]), 0])
            ops.append([1, 7, 0])
            ops.append([1, rng.choice([0, 2, 3]), 0])        # End is sticky after the loop
        else:
            for _ in range(nacc):
                ops.append([1, rng.choice(styles), rng.randint(100, 140) if ha else 0])
        ops.append([3])
        has_pend = any(sc[i] == 3 for i in range(0, len(sc) - 1, 2))
        for _ in range(nsched):
            sched = [9] + [rng.randint(0, 3) for _ in range(rng.randint(10, 80))]
            o2 = ops
            if rng.random() < 0.4:      # the consumer thread issues its accesses from inside a running coroutine
                o2 = [[o[0], o[1] + 10, o[2]] if o[0] == 1 and not (o[1] == 2 and has_pend) else o for o in ops]
            cases.append(Case(eng, "c%d" % b, o2 + [sched])); b += 1
    for sc in scripts0:
        for styles in ([0], [1], [2], [3], [4], [5], [6], [6], [7], [8], [8, 6, 3], [0, 1, 2, 3, 4, 5, 6], [7, 0, 3]):
            one("genc0", sc, styles, 7, 2 if quick else 12)
    for sc in scripts1:
        for styles in ([0], [2], [3], [4], [6], [6], [8], [8, 6], [0, 2, 3, 4, 5, 6]):
            one("genc1", sc, styles, 6, 2 if quick else 12)
    n = 60 if quick else 800
    for i in range(n):
        eng = "genc0" if i % 2 == 0 else "genc1"
        ha = eng == "genc1"
        sc = gen_script(rng, ha, rng.randint(1, 9), rng.choice([0.15, 0.3, 0.45]), rng.choice([0, 0, 1, 2]))
        styles = rng.choice([STYLES1 if ha else STYLES0 + [7], [0, 3], [2, 4], [1, 6] if not ha else [6, 0], [6], [8, 6], [8]])
        one(eng, sc, styles, rng.randint(2, 9), 1 if quick else 3)
    return cases


def gen_deep(seed, tier):
    """engine gend: long synchronous generators read to the end, -O2 without sanitizers: no native stack per item"""
    rng = random.Random(seed * 7368787 + 139)
    cases = []
    for k, (n, y) in enumerate([(3000000, 3), (3000000, 4), (1000000, 0), (1000000, 1), (1000000, 2), (0, 3), (1, 1), (2, 4)]):
        cases.append(Case("gend", "p%d" % k, [[30, n, y]]))
    for i in range(6 if tier == "quick" else 40):
        cases.append(Case("gend", "q%d" % i, [[30, rng.choice([0, 1, 2, 1000, 65536, 300000, 2000000]) + rng.randint(0, 3), rng.randint(0, 4)]
                                             for _ in range(rng.randint(1, 3))]))
    cases.append(Case("gend", "bad", [[30, 5, 9], [31, 1, 1], [30, -1, 0]]))
    return cases


PARTS = [{"name": "vm_gen", "harness": "vm_gen.cpp", "gen": gen, "timeout_case": 3},
         {"name": "deep_gen", "harness": "deep_gen.cpp", "gen": gen_deep, "timeout_case": 20, "flags": "-O2 -g", "no_shrink": True},
         {"name": "ctl_genc", "harness": "vm_genc.cpp", "gen": gen_ctl, "timeout_case": 10}]
