"""C19 — coroutine storage policies give every frame exclusive, correctly freed memory
(coro_storage.h, alloca_storage.h, with_allocator.h)."""
import itertools, os, random, subprocess
import vlib
from vlib import Case

RULE = ("histories Init / Create slot (coroutine class -> frame size as the compiler requests it) / Finish slot / Destroy over real "
        "coroutines of 9 different frame sizes for default, reusable, reusable_mtsafe, stack, placement and vector-buffer storage, with and "
        "without promise_extra_storage on top; boundary programs (equal size after warm-up, exact fit, one byte short, growth while other "
        "frames live) + random histories + a malformed stream; every case closed by finishing all frames and destroying the storage. "
        "st_mtc: 1-5 real threads on one reusable_storage_mtsafe under controlled schedules (random, bursty, last-first; thorough adds "
        "every schedule of small configurations). non-trivial (sequential) = at least 3 frames created; (st_mtc/st_mtr) = at least 3 thread "
        "switches in the executed trace; distinct = distinct op list")
SCOPE = ("default_storage, reusable_storage, reusable_storage_mtsafe (alloc/dealloc, _busy, trailer), stack_storage, placement_alloc, "
         "reusable_buffer_storage<std::vector>, promise_extra_storage<T,Base>, custom_allocator_base operator new/delete; "
         "static_storage is not a Storage (non-static dealloc) and is outside the property's list")
ASSUMPTIONS = ["reusable_storage, placement_alloc and reusable_buffer_storage serve one live frame at a time and placement memory is large "
               "enough (documented usage contract; `contract_ok` hypothesis in the theorems; violating ops are refused by model and harness alike)",
               "one stack_storage object (and its alloca area) per coroutine call, as in scheduler.h:242",
               "st_mtc: interleaving at the granularity of the busy_x / busy_g / busy_n / busy_s hook points and at every operation on the atomic _busy (std::atomic intercepted in the harness), sequentially consistent; the memory-order "
               "aspect of _busy is C03's subject",
               "the factory of the extra object does not throw",
               "std::vector growth follows libstdc++ (_M_default_append: new capacity = max(2*size, n))"]
TRUSTED_EXTRA = ["frame sizes are read from the harness binary (`seq_storage --sizes`): the model takes them as inputs"]

ENG = ["st_def", "st_reu", "st_mts", "st_stk", "st_plc", "st_buf"]
SINGLE = {"st_reu", "st_plc", "st_buf"}
_sizes = None


def sizes():
    """(sizeof extra object, {class: frame size}) measured by the harness that will run the cases"""
    global _sizes
    if _sizes is None:
        ok, binary, msg = vlib.build_harness("seq_storage.cpp")
        if not ok:
            raise RuntimeError("seq_storage.cpp does not build: " + msg[-2000:])
        out = subprocess.run([binary, "--sizes"], stdout=subprocess.PIPE, timeout=60).stdout.decode().split("\n")
        xs, tbl = [], {}
        for l in out:
            a = l.split()
            if len(a) == 3 and a[0] == "x": xs.append((int(a[1]), int(a[2])))
            elif len(a) == 2: tbl[int(a[0])] = int(a[1])
        _sizes = (xs, tbl)
    return _sizes


def close_case(c):
    if c.engine in ("st_mtc", "st_mtr"):
        return c
    if c.engine in ("so_reu", "so_stk"):
        return close_obj(Case(c.engine, c.name, [o for o in c.ops if not (len(o) == 2 and o[0] == 7)], c.meta))
    ops = [o for o in c.ops if o != [9]] if c.meta.get("strip_destroy") else list(c.ops)
    slots = []
    for o in ops:
        if len(o) == 4 and o[0] == 1 and o[1] not in slots:
            slots.append(o[1])
    return Case(c.engine, c.name, ops + [[2, s] for s in slots] + [[9]], c.meta)


def init_for(rng, eng, x, tbl):
    szs = sorted(tbl.values())
    if eng in ("st_def", "st_reu", "st_mts"):
        xx, al = rng.choice([(0, 8), (0, 8)] + list(x))
        return [0, xx, 0, 0, al] if xx else [0, 0, 0, 0]
    if eng == "st_stk":
        s = rng.choice(szs)
        return [0, 0, rng.choice([0, 0, s, s + 1, s + 2, szs[-1] + 1, 50]), 0]
    if eng == "st_plc":
        s = rng.choice(szs)
        return [0, 0, rng.choice([s, s - 1, s + 1, szs[-1], szs[-1] + 64]), 0]
    a = rng.choice([1, 8, 3, 7, 24])
    s = rng.choice(szs)
    return [0, 0, a, rng.choice([0, 0, 3, s // a, s // a + 1, (s + a - 1) // a, 2 * s // a])]


def gen_random(rng, eng, name, x, tbl, nops):
    order = sorted(tbl, key=lambda k: (tbl[k], k))   # classes by frame size
    ks = list(range(len(order)))
    ops = [init_for(rng, eng, x, tbl)]
    live = set()
    bias = rng.choice(["grow", "shrink", "same", "mix"])
    last = rng.choice(ks)
    for _ in range(nops):
        r = rng.random()
        free = [s for s in range(6) if s not in live]
        may_create = free and (eng not in SINGLE or not live or r < 0.04)
        if may_create and (r < 0.55 or not live):
            if bias == "grow": k = min(ks[-1], last + rng.choice([0, 1, 2, 3, 5]))
            elif bias == "shrink": k = max(0, last - rng.choice([0, 1, 2, 3, 5]))
            elif bias == "same": k = last if rng.random() < 0.7 else rng.choice(ks)
            else: k = rng.choice(ks)
            last = k
            s = rng.choice(free)
            ops.append([1, s, order[k], tbl[order[k]]])
            if eng not in SINGLE or not live:
                live.add(s)
        elif live:
            s = rng.choice(sorted(live))
            ops.append([2, s]); live.discard(s)
    c = Case(eng, name, ops)
    # malformed stream, identical rejection on both sides
    m = rng.random()
    if m < 0.05: c.ops.insert(rng.randrange(1, len(c.ops) + 1), [2, rng.choice([7, 40, 99])])
    elif m < 0.09: c.ops.insert(rng.randrange(1, len(c.ops) + 1), [7, 1])
    elif m < 0.12: c.ops.insert(0, [1, 0, 0, tbl[0]])
    elif m < 0.15: c.ops.insert(rng.randrange(1, len(c.ops) + 1), [0, 0, 1, 1])
    elif m < 0.18: c.ops.insert(rng.randrange(1, len(c.ops) + 1), [1, 64 + rng.randrange(3), 0, tbl[0]])
    return close_case(c)


def boundary(x, tbl):
    order = sorted(tbl, key=lambda k: (tbl[k], k))
    ks = list(range(len(order)))
    out = []
    b = [0]
    def add(eng, ops):
        out.append(close_case(Case(eng, "b%d" % b[0], ops))); b[0] += 1
    def cr(s, k): return [1, s, order[k], tbl[order[k]]]
    for xx, xal in [(0, 8)] + list(x):
        # reusable: equal size after warm-up, smaller, larger, one class larger
        for k in ks:
            k2 = min(ks[-1], k + 1); k0 = max(0, k - 1)
            add("st_reu", [[0, xx, 0, 0, xal], cr(0, k), [2, 0], cr(0, k), [2, 0], cr(1, k0), [2, 1], cr(0, k2), [2, 0], cr(0, k), [2, 0]])
            # thread-safe variant used sequentially: second/third frame while the block is taken, then reuse, then growth
            add("st_mts", [[0, xx, 0, 0, xal], cr(0, k), cr(1, k), cr(2, k0), [2, 0], cr(3, k), [2, 1], [2, 3], cr(0, k2), cr(4, k2), [2, 2], [2, 0], cr(5, k), [2, 4], [2, 5]])
            add("st_mts", [[0, xx, 0, 0, xal], cr(0, k), [2, 0], cr(0, k), cr(1, k2), [2, 1], [2, 0], cr(1, k2), [2, 1], cr(2, k)])
            add("st_def", [[0, xx, 0, 0, xal], cr(0, k), cr(1, k), [2, 0], cr(0, k2), [2, 1], [2, 0]])
    for k in ks:
        s = tbl[order[k]]
        k2 = min(ks[-1], k + 1); k0 = max(0, k - 1)
        for a in (0, s, s + 1, s + 2):
            add("st_stk", [[0, 0, a, 0], cr(0, k), cr(1, k), [2, 0], cr(0, k0), cr(2, k2), [2, 1], [2, 0], cr(3, k2), cr(4, k)])
        for p in (s - 1, s, s + 1):
            add("st_plc", [[0, 0, p, 0], cr(0, k), [2, 0], cr(1, k0), [2, 1], cr(0, k2), [2, 0], cr(0, k)])
        for a in (1, 8, 3, 7, 24):
            for n0 in (0, (s + a - 1) // a, (s + a - 1) // a - 1, (s + a - 1) // a + 1, s // a // 2 + 1):
                add("st_buf", [[0, 0, a, n0], cr(0, k), [2, 0], cr(0, k), [2, 0], cr(0, k2), [2, 0], cr(1, k0), [2, 1], cr(0, ks[-1]), [2, 0], cr(0, k2)])
    return out


def gen(seed, tier):
    x, tbl = sizes()
    rng = random.Random(seed * 104729 + 19)
    n = 110 if tier == "quick" else 1500
    cases = boundary(x, tbl)
    for eng in ENG:
        for i in range(n):
            cases.append(gen_random(rng, eng, "%s_%d" % (eng[3:], i), x, tbl, rng.randint(4, 26)))
    return cases


# ---------------------------------------------------------------- st_mtc
def mk_mt(name, progs, sched, eng="st_mtc"):
    ops = [[2] + [v for a in p for v in a] for p in progs] + [[9] + list(sched)]
    return Case(eng, name, ops)


def gen_mt(seed, tier):
    x, tbl = sizes()
    order = sorted(tbl, key=lambda k: (tbl[k], k))
    ks = list(range(len(order)))
    rng = random.Random(seed * 15485863 + 191)
    n = 450 if tier == "quick" else 5000
    cases = []
    for i in range(n):
        nt = rng.choice([1, 2, 2, 2, 3, 3, 4, 5])
        progs = []
        for t in range(nt):
            p, live = [], 0
            base = rng.choice(ks)
            for _ in range(rng.randint(1, 7)):
                if live and rng.random() < 0.45:
                    p.append([rng.choice([-1, -1, -2]), 0]); live -= 1
                else:
                    k = min(ks[-1], max(0, base + rng.choice([-2, -1, 0, 0, 1, 2, 3, 5])))
                    base = k
                    p.append([order[k], tbl[order[k]]]); live += 1
            if rng.random() < 0.05: p.append([-1, 0])          # finish with nothing left: dropped on both sides
            if rng.random() < 0.05: p.insert(0, [0, 0])        # size 0: dropped on both sides
            progs.append(p)
        L = rng.choice([0, 8, 16, 28, 40, 60])
        style = rng.random()
        if style < 0.5: sched = [rng.randint(0, 5) for _ in range(L)]
        elif style < 0.8:
            sched = []
            while len(sched) < L: sched += [rng.randint(0, 5)] * rng.randint(1, 4)
        else: sched = [rng.choice([5, 4, 3, 0]) for _ in range(L)]
        cases.append(mk_mt("m%d" % i, progs, sched, "st_mtr" if i % 2 else "st_mtc"))
    # aimed at the window inside reusable_storage::alloc (busy_n): a holder regrowing the block while other threads take and
    # return heap blocks of exactly the size of the block just deleted; recycling allocator, random schedules
    na = 350 if tier == "quick" else 4000
    for i in range(na):
        a = rng.randrange(0, len(ks) - 4); b = rng.randrange(a + 1, len(ks))
        small, big = [order[a], tbl[order[a]]], [order[b], tbl[order[b]]]
        F = [-1, 0]
        nt = rng.choice([3, 3, 4])
        progs = [[small, F, big] + ([F, small] if rng.random() < 0.5 else [])]
        for t in range(nt - 1):
            p = []
            for _ in range(rng.randint(1, 3)):
                p += [small if rng.random() < 0.8 else big, F] if rng.random() < 0.7 else [small, small, F, F]
            progs.append(p)
        L = rng.choice([14, 22, 32, 44])
        if rng.random() < 0.5: sched = [rng.randint(0, 5) for _ in range(L)]
        else:
            sched = []
            while len(sched) < L: sched += [rng.randint(0, 5)] * rng.randint(1, 3)
        cases.append(mk_mt("a%d" % i, progs, sched, "st_mtr"))
    # systematic: every schedule of small two- and three-thread configurations
    k0, k1, k2 = ks[3], ks[10], ks[16]
    C = lambda k: [order[k], tbl[order[k]]]
    F = [-1, 0]
    cfgs = [([[C(k0), F, C(k1), F], [C(k0), F, C(k0), F]], 2, 11 if tier == "quick" else 14),
            ([[C(k1), F], [C(k2), F], [C(k0), F]], 3, 7 if tier == "quick" else 9),
            ([[C(k0), C(k1), F, F], [C(k2), F, C(k0), F]], 2, 0 if tier == "quick" else 14)]
    j = 0
    for progs, width, depth in cfgs:
        if not depth: continue
        for pre in itertools.product(range(width), repeat=depth):
            cases.append(mk_mt("x%d" % j, progs, pre, "st_mtr" if j % 2 else "st_mtc")); j += 1
    return cases


def nontrivial(case, model_obs):
    if case.engine in ("st_mtc", "st_mtr"):
        tids = [l.split()[0] for l in model_obs if len(l.split()) == 2]
        return sum(1 for a, b in zip(tids, tids[1:]) if a != b) >= 3
    creates = 0
    for o, l in zip(case.ops, model_obs):
        if o and o[0] == 1 and l.split()[0] == "0" and len(l.split()) > 1:
            creates += 1
    return creates >= 3


def signature(case, impl_obs, model_obs):
    last = impl_obs[-1] if impl_obs else ""
    if last.startswith("CRASH"):
        kind = last.split()[1] if len(last.split()) > 1 else "crash"
        # promise_extra_storage places T at ptr+sz without regard to alignof(T) (fixes/C19-extra-align.patch): one input class
        init = [o for o in case.ops if len(o) == 5 and o[0] == 0]
        if "misaligned" in kind and init and init[0][1] > 0 and (init[0][4] > 8 or init[0][1] % 8):
            return "extra-object-misaligned"
    elif last == "HANG":
        kind = "HANG"
    else:
        kind = "oracle"
    return "%s:%s" % (case.engine, kind)


# ---------------------------------------------------------------- storage objects as values (so_reu, so_stk)
def close_obj(c):
    ops = list(c.ops)
    slots = []
    for o in ops:
        if len(o) == 5 and o[0] == 1 and o[1] not in slots: slots.append(o[1])
    return Case(c.engine, c.name, ops + [[2, s] for s in slots] + [[7, j] for j in range(8)], c.meta)


def gen_obj(seed, tier):
    xs, tbl = sizes()
    order = sorted(tbl, key=lambda k: (tbl[k], k))
    rng = random.Random(seed * 7368787 + 77)
    n = 160 if tier == "quick" else 2500
    cases = []
    def cr(slot, j, pos): return [1, slot, j, order[pos], tbl[order[pos]]]
    b = 0
    # aimed programs
    for lo in (0, 3, 9, 14):
        for hi in (lo + 1, lo + 6, len(order) - 1):
            hi = min(hi, len(order) - 1)
            # target owns a small block, source a big one; assign; reuse both, the moved-from one for a big frame
            cases.append(close_obj(Case("so_reu", "ob%d" % b, [[4, 0], [4, 1], cr(0, 0, lo), [2, 0], cr(0, 1, hi), [2, 0], [5, 0, 1],
                                   cr(1, 1, hi), [2, 1], cr(2, 0, hi), [2, 2], cr(3, 1, lo), [2, 3], [6, 2, 0], cr(0, 2, hi), [2, 0], cr(1, 0, hi), [2, 1]]))); b += 1
            cases.append(close_obj(Case("so_reu", "ob%d" % b, [[4, 0], [4, 1], cr(0, 0, hi), [2, 0], cr(0, 1, lo), [2, 0], [5, 0, 1],
                                   cr(1, 1, hi), [2, 1], cr(2, 0, hi), [2, 2], [5, 1, 0], cr(3, 0, lo), cr(4, 1, hi), [2, 3], [2, 4]]))); b += 1
            for a in (0, tbl[order[lo]] + 1, tbl[order[lo]], tbl[order[hi]] + 1):
                # one object: small, big (learns), big again; two objects reserved before the learning
                cases.append(close_obj(Case("so_stk", "ob%d" % b, [[0, a], [4, 0], cr(0, 0, lo), [2, 0], cr(0, 0, hi), [2, 0], cr(0, 0, hi), [2, 0],
                                       [4, 1], cr(1, 1, hi), cr(2, 0, lo), [2, 1], [2, 2]]))); b += 1
                cases.append(close_obj(Case("so_stk", "ob%d" % b, [[0, a], [4, 0], [4, 1], cr(0, 0, hi), cr(1, 1, hi), [2, 0], [2, 1], cr(0, 1, lo), cr(1, 0, hi),
                                       [4, 2], cr(2, 2, hi), [2, 0], [2, 1], [2, 2]]))); b += 1
    for i in range(n):
        eng = "so_reu" if i % 2 else "so_stk"
        ops = [[0, rng.choice([0, 0, 50, tbl[rng.choice(order)] + 1])]] if eng == "so_stk" else []
        objs, live = set(), {}
        base = rng.randrange(len(order))
        for _ in range(rng.randint(6, 28)):
            r = rng.random()
            freeo = [j for j in range(4) if j not in objs]
            idle = [j for j in objs if j not in live.values()]
            if (not objs or r < 0.12) and freeo:
                j = rng.choice(freeo); ops.append([4, j]); objs.add(j)
            elif r < 0.55 and idle:
                j = rng.choice(idle)
                slot = rng.choice([s for s in range(6) if s not in live] or [0])
                base = min(len(order) - 1, max(0, base + rng.choice([-6, -2, 0, 0, 2, 6, 12])))
                ops.append(cr(slot, j, base))
                if slot not in live: live[slot] = j
            elif r < 0.75 and live:
                slot = rng.choice(sorted(live)); ops.append([2, slot]); del live[slot]
            elif r < 0.85 and eng == "so_reu" and len(idle) >= 2:
                j, i2 = rng.sample(idle, 2); ops.append([5, j, i2])
            elif r < 0.90 and eng == "so_reu" and idle and freeo:
                j = rng.choice(freeo); ops.append([6, j, rng.choice(idle)]); objs.add(j)
            elif r < 0.95 and idle:
                j = rng.choice(idle); ops.append([7, j]); objs.discard(j)
            elif rng.random() < 0.3:
                ops.append(rng.choice([[5, 0, 0], [7, 9], [2, 40], [8, 1], [1, 0, 7, 0, 96], [6, 0, 5]]))   # malformed / refused
        cases.append(close_obj(Case(eng, "o%d" % i, ops)))
    return cases


PARTS = [{"name": "seq_storage", "harness": "seq_storage.cpp", "gen": gen},
         {"name": "ctl_storage", "harness": "ctl_storage.cpp", "gen": gen_mt, "timeout_case": 10},
         {"name": "seq_storobj", "harness": "seq_storobj.cpp", "gen": gen_obj}]
