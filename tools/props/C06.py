"""C06 — a suspend point never loses or duplicates a ready coroutine (suspend_point.h)."""
import random
from vlib import Case

RULE = ("random + boundary-aimed op sequences over suspend_point<int> objects (New/NewH/Add/Merge/MoveCtor/MoveBase/"
        "MoveAssign/Pop/Clear/Destroy/Await/Flush) in normal mode (sp0) and coroutine mode (sp1), every case closed by "
        "destroying all objects and flushing the ready queue; a case is non-trivial when at least one object crosses the "
        "inline->heap boundary (allocation observed in the model) or a merge/move of a non-empty object occurs; distinct = distinct op list")
SCOPE = "suspend_point<void>/<int> add/pop/merge/move/clear/await/destructor and the ready-queue interaction of suspend_now/await_suspend"
ASSUMPTIONS = ["handles handed to one case are pairwise distinct (the generator uses fresh ids); the awaiting coroutine's own handle is never inside the awaited object",
               "coroutine-mode cases keep < 60 enqueues so that libstdc++ deque node allocation (C20 finding) stays outside C06's allocation accounting"]


def close_case(c):
    """append destroy-all + flush so that the oracle's closed-trace precondition holds"""
    ops = [o for o in c.ops]
    slots = set()
    for o in ops:
        if o and o[0] in (0, 1, 4, 5):
            slots.add(o[1])
    tail = [[8, s] for s in sorted(slots)]
    if c.engine == "sp1":
        tail.append([10])
    return Case(c.engine, c.name, ops + tail, c.meta)


def gen_one(rng, engine, name, nops, aim):
    coro = engine == "sp1"
    live = {}      # slot -> count
    nxt = [1]
    ops = []
    enq = 0
    def fresh():
        nxt[0] += 1
        return nxt[0]
    def budget(k):
        return (not coro) or enq + k <= 55
    for _ in range(nops):
        r = rng.random()
        dead = [s for s in range(5) if s not in live]
        if (not live or r < 0.08) and dead:
            s = rng.choice(dead)
            if rng.random() < 0.5:
                ops.append([0, s, 1000 + s]); live[s] = 0
            else:
                ops.append([1, s, fresh(), 1000 + s]); live[s] = 1
            continue
        if not live:
            continue
        s = rng.choice(list(live))
        if r < 0.45:
            k = rng.choice(aim)
            if nxt[0] + k > 70: k = 1
            for _ in range(k):
                ops.append([2, s, fresh()]); live[s] += 1
        elif r < 0.58 and len(live) >= 2:
            t = rng.choice([x for x in live if x != s])
            ops.append([rng.choice([3, 11]), s, t]); live[s] += live[t]; live[t] = 0
        elif r < 0.66 and dead:
            d = rng.choice(dead)
            if rng.random() < 0.5: ops.append([4, d, s])
            else: ops.append([5, d, s, 2000 + d])
            live[d] = live[s]; live[s] = 0
        elif r < 0.78:
            k = rng.choice([1, 1, 2, live[s] + 1])
            for _ in range(k):
                ops.append([6, s]); live[s] = max(0, live[s] - 1)
        elif r < 0.84 and budget(live[s]):
            ops.append([7, s]); enq += live[s]; live[s] = 0
        elif r < 0.90 and budget(live[s]):
            ops.append([8, s]); enq += live[s]; del live[s]
        elif r < 0.95 and coro and budget(live[s] + 1):
            ops.append([9, s]); enq += live[s] + 1; live[s] = 0
        elif coro:
            ops.append([10])
        else:
            ops.append([6, s]); live[s] = max(0, live[s] - 1)
    # a few invalid ops (malformed stream) to exercise the rejection path identically on both sides
    if rng.random() < 0.15:
        ops.insert(rng.randrange(len(ops) + 1), [2, 9, 999])
    return close_case(Case(engine, name, ops))


def gen(seed, tier):
    rng = random.Random(seed * 7919 + 6)
    n = 300 if tier == "quick" else 4000
    cases = []
    # boundary programs first
    b = 0
    for eng in ("sp0", "sp1"):
        for k in (3, 4, 6, 7, 12, 13, 24, 25, 40):
            ops = [[0, 0, 1000]] + [[2, 0, 10 + i] for i in range(k)]
            cases.append(close_case(Case(eng, "b%d" % b, ops))); b += 1
            ops2 = ops + [[6, 0]] * (k + 1) + [[2, 0, 100 + i] for i in range(4)]
            cases.append(close_case(Case(eng, "b%d" % b, ops2))); b += 1
            ops3 = ops + [[0, 1, 1001]] + [[2, 1, 200 + i] for i in range(k)] + [[3, 0, 1], [4, 2, 0], [11, 1, 2]]
            cases.append(close_case(Case(eng, "b%d" % b, ops3))); b += 1
    for i in range(n):
        eng = "sp0" if i % 2 == 0 else "sp1"
        aim = rng.choice([[1, 2, 3], [3, 4], [4, 6, 7], [7, 12, 13], [1, 1, 25]])
        cases.append(gen_one(rng, eng, "g%d" % i, rng.randint(3, 25), aim))
    return cases


def nontrivial(case, model_obs):
    allocs = 0
    for l in model_obs:
        a = l.split()
        if len(a) > 3 and a[0] == "0":
            allocs += int(a[3])
    moves = any(o and o[0] in (3, 4, 5, 11) for o in case.ops)
    return allocs > 0 or moves


def signature(case, impl_obs, model_obs):
    # canonical: engine + first index where impl and model differ + kind of last impl line
    last = impl_obs[-1] if impl_obs else ""
    kind = last.split()[1] if last.startswith("CRASH") and len(last.split()) > 1 else ("HANG" if last == "HANG" else "oracle")
    return "%s:%s" % (case.engine, kind)


PARTS = [{"name": "seq_sp", "harness": "seq_sp.cpp", "gen": gen}]
