"""C06 — a suspend point never loses or duplicates a ready coroutine (suspend_point.h, coro_queue.h create_suspend_point)."""
import random
from vlib import Case

RULE = ("random + boundary-aimed op sequences over suspend_point<void> and suspend_point<MV> objects (MV: class type with "
        "observable moves): New/NewH/NewVoid/NewVoidH/create_suspend_point/Add/Merge/MoveCtor/MoveBase/MoveAssign/Swap/Pop/"
        "AddFail(operator new[] throws)/CreateThrow(callback throws)/Clear/Destroy/Read(conversion, const conversion)/Await(temporary)/AwaitL(lvalue)/AddSelf(own handle)/Flush in normal "
        "mode (sp0) and coroutine mode (sp1), every case closed by awaiting the object that holds the own handle, destroying "
        "all objects and flushing the ready queue; a case is non-trivial when at least one object crosses the inline->heap "
        "boundary (allocation observed in the model) or a merge/move/swap/create/await of a non-empty object occurs; "
        "distinct = distinct op list; thorough adds all programs of length <= 4 over a 10-letter (coroutine mode, own handle, both await "
        "forms) and a 9-letter (normal mode, growth, merges, swap) alphabet on two objects")
SCOPE = ("suspend_point<void>/<X> add/pop/merge/move/swap/clear/await/destructor, value conversions and await_resume, "
         "coro_queue::create_suspend_point, and the ready-queue interaction of suspend_now/await_suspend/pause")
ASSUMPTIONS = ["the awaiting coroutine's own handle (co_await self()) is in at most one place and is consumed only by co_await "
               "(pop/clear/destroy of the object holding it would resume a running coroutine: rejected as invalid input)",
               "coroutine-mode cases keep < 60 enqueues so that libstdc++ deque node allocation (C20 finding) stays outside C06's allocation accounting",
               "own-handle-LAST awaits: the model transcribes the library with fixes/C06-await-own-handle-last.patch (/repo 59ae9af); the unrepaired "
               "code resumes the awaiter twice (use-after-free) on exactly these inputs (signature suffix :self-last)"]

NSLOT = 6


class Obj:
    """one suspend point as the model sees it: type, handle list, heap flag, capacity"""
    def __init__(self, typed, hs=()):
        self.typed, self.hs, self.flag, self.cap = typed, [], False, 0
        for h in hs: self.add(h)

    def needs_alloc(self):
        return len(self.hs) == self.cap if self.flag else len(self.hs) >= 3

    def add(self, h):
        if self.needs_alloc():
            self.cap = 2 * len(self.hs); self.flag = True
        self.hs.append(h)

    def take(self):
        """contents leave (move / merge source / clear / await): _count_flag = 0"""
        hs = self.hs
        self.hs, self.flag = [], False
        return hs


class Sim:
    """list-level mirror of the model's acceptance rules (used to generate valid ops, to close cases, for signatures)"""
    def __init__(self, coro):
        self.coro = coro
        self.s = {}          # slot -> Obj
        self.q = []
        self.enq = 0         # push_back calls so far
        self.self_last = False

    def holder(self):
        for o, ob in self.s.items():
            if 0 in ob.hs:
                return o
        return None

    def apply(self, op):
        """returns True when the op is accepted; updates the state like the model"""
        s = self.s
        if not op:
            return False
        c = op[0]
        def live(o): return o in s
        if c in (0, 1, 13, 14):
            want = {0: 3, 1: 4, 13: 2, 14: 3}[c]
            if len(op) != want or live(op[1]): return False
            if c in (1, 14) and op[2] <= 0: return False
            s[op[1]] = Obj(c in (0, 1), [op[2]] if c in (1, 14) else [])
            return True
        if c in (12, 20):
            if len(op) < 4 or live(op[1]) or op[2] not in (0, 1) or any(h <= 0 for h in op[4:]): return False
            if c == 12:
                s[op[1]] = Obj(op[2] == 1, list(reversed(op[4:])))
            elif self.coro:
                self.q += op[4:]; self.enq += len(op) - 4
            return True
        if c in (2, 19):
            if len(op) != 3 or not live(op[1]) or op[2] <= 0: return False
            if c == 19 and s[op[1]].needs_alloc(): return True     # bad_alloc: nothing changes
            s[op[1]].add(op[2]); return True
        if c == 17:
            if len(op) != 2 or not self.coro or not live(op[1]) or self.holder() is not None or 0 in self.q: return False
            s[op[1]].add(0); return True
        if c in (3, 11):
            if len(op) != 3 or op[1] == op[2] or not live(op[1]) or not live(op[2]): return False
            if c == 11 and s[op[1]].typed and not s[op[2]].typed: return False
            for h in s[op[2]].take(): s[op[1]].add(h)
            return True
        if c in (4, 5):
            if len(op) != (3 if c == 4 else 4) or op[1] == op[2] or live(op[1]) or not live(op[2]): return False
            src = s[op[2]]
            d = Obj(True if c == 5 else src.typed)
            d.flag, d.cap = src.flag, src.cap
            d.hs = src.take()
            s[op[1]] = d
            return True
        if c == 18:
            if len(op) != 3 or op[1] == op[2] or not live(op[1]) or not live(op[2]) or s[op[1]].typed != s[op[2]].typed: return False
            ha, hb = s[op[1]].take(), s[op[2]].take()
            for h in hb: s[op[1]].add(h)
            for h in ha: s[op[2]].add(h)
            return True
        if c == 15:
            return len(op) == 3 and live(op[1]) and s[op[1]].typed and op[2] in (0, 1)
        if c in (6, 7, 8):
            if len(op) != 2 or not live(op[1]) or 0 in s[op[1]].hs: return False
            if c == 6:
                if s[op[1]].hs: s[op[1]].hs.pop()
            else:
                hs = s[op[1]].take()
                if self.coro:
                    self.q += hs; self.enq += len(hs)
                if c == 8: del s[op[1]]
            return True
        if c in (9, 16):
            if len(op) != 2 or not self.coro or not live(op[1]): return False
            if not s[op[1]].hs:
                if c == 9: s[op[1]].take()
                return True
            hs = s[op[1]].take()
            out, rest = hs[-1], hs[:-1]
            if out == 0: self.self_last = True
            me_in = out == 0 or 0 in rest
            q1 = self.q + rest + ([] if me_in else [0])
            self.enq += len(rest) + (0 if me_in else 1)
            if out == 0: self.q = q1
            else: self.q = q1[q1.index(0) + 1:] if 0 in q1 else []
            return True
        if c == 10:
            if len(op) != 1 or not self.coro: return False
            q1 = self.q + [0]
            self.enq += 1
            self.q = q1[q1.index(0) + 1:]
            return True
        return False


def close_case(c):
    """append what makes the oracle's closed-trace precondition hold: await the object that holds the own handle,
    destroy every object, flush the ready queue"""
    sim = Sim(c.engine == "sp1")
    for o in c.ops:
        sim.apply(o)
    tail = []
    h = sim.holder()
    if h is not None:
        tail.append([16, h])
        sim.apply([16, h])
    for s in sorted(sim.s):
        tail.append([8, s])
    if c.engine == "sp1":
        tail.append([10])
    return Case(c.engine, c.name, c.ops + tail, c.meta)


def gen_one(rng, engine, name, nops, aim, allow_self_last=False):
    coro = engine == "sp1"
    sim = Sim(coro)
    nxt = [1]
    ops = []
    def fresh():
        nxt[0] += 1
        return nxt[0]
    def budget(k):
        return (not coro) or sim.enq + k <= 55
    def do(op):
        ops.append(op)
        return sim.apply(op)
    def count(o):
        return len(sim.s[o].hs)
    for _ in range(nops):
        r = rng.random()
        live = list(sim.s)
        dead = [s for s in range(NSLOT) if s not in sim.s]
        if (not live or r < 0.08) and dead:
            s = rng.choice(dead)
            k = rng.random()
            if k < 0.25: do([0, s, 1000 + s])
            elif k < 0.45: do([1, s, fresh(), 1000 + s])
            elif k < 0.55: do([13, s])
            elif k < 0.65: do([14, s, fresh()])
            else:
                m = rng.choice([0, 1, 2] + aim)
                if nxt[0] + m > 70 or not budget(m): m = 1
                do([20 if rng.random() < 0.25 else 12, s, rng.randint(0, 1), 3000 + s] + [fresh() for _ in range(m)])
            continue
        if not live:
            continue
        s = rng.choice(live)
        hold = sim.holder()
        if r < 0.36:
            k = rng.choice(aim)
            if nxt[0] + k > 70: k = 1
            for _ in range(k):
                do([19 if rng.random() < 0.12 else 2, s, fresh()])
        elif r < 0.48 and len(live) >= 2:
            t = rng.choice([x for x in live if x != s])
            do([rng.choice([3, 11]), s, t])
        elif r < 0.54 and len(live) >= 2:
            t = rng.choice([x for x in live if x != s])
            do([18, s, t])
        elif r < 0.61 and dead:
            d = rng.choice(dead)
            if rng.random() < 0.5: do([4, d, s])
            else: do([5, d, s, 2000 + d])
        elif r < 0.72:
            k = rng.choice([1, 1, 2, count(s) + 1, max(1, count(s) - 2)])
            for _ in range(k):
                do([6, s])
            if rng.random() < 0.5 and s != hold:        # add after pop (a popped heap-backed point keeps its array)
                for _ in range(rng.choice([1, 2, 3])):
                    do([2, s, fresh()])
        elif r < 0.79:
            for _ in range(rng.choice([1, 2, 3])):
                do([15, s, rng.randint(0, 1)])
        elif r < 0.83 and budget(count(s)):
            do([7, s])
        elif r < 0.87 and budget(count(s)):
            do([8, s])
        elif coro and r < 0.93 and budget(count(s) + 1):
            if s == hold and sim.s[s].hs[-1] == 0 and not allow_self_last:
                do([2, s, fresh()])                      # keep the own handle away from the last position
            do([rng.choice([9, 16]), s])
        elif coro and r < 0.97 and hold is None:
            do([17, s])
        elif coro and budget(1):
            do([10])
        else:
            do([15, s, 0])
    # a few invalid ops (malformed stream) to exercise the rejection path identically on both sides
    if rng.random() < 0.15:
        ops.insert(rng.randrange(len(ops) + 1), rng.choice([[2, 9, 999], [2, 0, 0], [15, 0, 7], [12, 1, 2, 5, 9], [99], [6], [18, 0, 0]]))
    c = Case(engine, name, ops)
    if not allow_self_last:
        # the closing await must not meet the own handle in the last position either
        sim2 = Sim(coro)
        for o in ops: sim2.apply(o)
        h = sim2.holder()
        if h is not None and sim2.s[h].hs[-1] == 0:
            c = Case(engine, name, ops + [[2, h, 900]])
    return close_case(c)


def self_cases(eng, tag, sizes, last):
    """own handle at every position k of an n-handle list (k = n-1: the last one only when `last`), awaited
    as a temporary / as an lvalue, void / typed, list built directly or by merging"""
    out = []
    b = 0
    for n_ in sizes:
        for k in range(n_):
            if (k == n_ - 1) != last:
                continue
            for form in (9, 16):
                for typed in (0, 1):
                    ops = [[0, 0, 1000]] if typed else [[13, 0]]
                    hs = [10 + i for i in range(n_ - 1)]
                    for i, h in enumerate(hs[:k]): ops.append([2, 0, h])
                    ops.append([17, 0])
                    if (n_ + k) % 2 == 0:
                        for h in hs[k:]: ops.append([2, 0, h])
                    else:   # tail arrives by merge of another object
                        ops.append([13, 1])
                        for h in hs[k:]: ops.append([2, 1, h])
                        ops.append([3, 0, 1])
                    ops += [[0, 3, 1003], [2, 3, 500], [7, 3]]          # something already in the ready queue
                    ops += [[form, 0], [15, 0, 0]] if typed else [[form, 0]]
                    ops += [[10]]
                    out.append(close_case(Case(eng, "%s%d" % (tag, b), ops))); b += 1
    return out


def exhaustive():
    """all programs of length <= 4 over a small alphabet on two objects (every Add uses a fresh handle)"""
    import itertools
    out = []
    def build(eng, tag, prefix, letters, maxlen):
        k = 0
        for ln in range(1, maxlen + 1):
            for word in itertools.product(range(len(letters)), repeat=ln):
                ops = [list(o) for o in prefix]
                h = 10
                for w in word:
                    for o in letters[w]:
                        o = list(o)
                        if o[0] == 2:
                            h += 1; o[2] = h
                        ops.append(o)
                out.append(close_case(Case(eng, "%s%d" % (tag, k), ops))); k += 1
    # coroutine mode: void object 0, typed object 1; own handle, merges both ways, both await forms, pause, pop
    build("sp1", "xc", [[13, 0], [0, 1, 1001]],
          [[[2, 0, 0]], [[2, 1, 0]], [[17, 0]], [[17, 1]], [[3, 0, 1]], [[3, 1, 0]], [[16, 0]], [[9, 1]], [[10]], [[6, 0]]], 4)
    # normal mode: two void objects; growth to the heap, merges, merging move assignment, swap, pop, clear
    build("sp0", "xn", [[13, 0], [13, 1]],
          [[[2, 0, 0]], [[2, 0, 0]] * 4, [[2, 1, 0]], [[3, 0, 1]], [[3, 1, 0]], [[6, 0]], [[18, 0, 1]], [[7, 1]], [[11, 0, 1]]], 4)
    return out


def gen(seed, tier):
    rng = random.Random(seed * 7919 + 6)
    n = 300 if tier == "quick" else 4000
    cases = []
    # boundary programs first
    b = 0
    for eng in ("sp0", "sp1"):
        for k in (3, 4, 6, 7, 12, 13, 24, 25, 40):
            for new in ([0, 0, 1000], [13, 0]):
                ops = [new] + [[2, 0, 10 + i] for i in range(k)]
                cases.append(close_case(Case(eng, "b%d" % b, ops))); b += 1
                ops2 = ops + [[6, 0]] * (k + 1) + [[2, 0, 100 + i] for i in range(4)]
                cases.append(close_case(Case(eng, "b%d" % b, ops2))); b += 1
                ops3 = ops + [[0, 1, 1001]] + [[2, 1, 200 + i] for i in range(k)] + [[3, 0, 1], [4, 2, 0], [11, 1, 2]]
                cases.append(close_case(Case(eng, "b%d" % b, ops3))); b += 1
            # pop down to j remaining, then add again (heap flag stays set)
            for j in (0, 1, 2):
                if k > 3:
                    ops4 = [[13, 0]] + [[2, 0, 10 + i] for i in range(k)] + [[6, 0]] * (k - j) + [[2, 0, 300 + i] for i in range(5)]
                    cases.append(close_case(Case(eng, "b%d" % b, ops4))); b += 1
            # create_suspend_point with k handles, typed and void; value read repeatedly; swap with a small one
            ops5 = [[12, 0, 1, 3000] + [10 + i for i in range(k)], [15, 0, 0], [15, 0, 0], [15, 0, 1], [12, 1, 0, 0, 400, 401],
                    [0, 2, 1002], [2, 2, 402], [18, 0, 2], [15, 0, 0], [15, 2, 0], [15, 2, 1], [4, 3, 2], [15, 2, 0], [15, 3, 0], [11, 0, 3], [15, 3, 1], [15, 0, 0]]
            cases.append(close_case(Case(eng, "b%d" % b, ops5))); b += 1
    # allocation failure exactly in an add() that must allocate (4th, 7th, 13th, 25th handle), and in one that need not
    for eng in ("sp0", "sp1"):
        for k in (2, 3, 4, 6, 12, 24):
            for new in ([0, 0, 1000], [13, 0]):
                ops = [new] + [[2, 0, 10 + i] for i in range(k)] + [[19, 0, 90], [19, 0, 91], [2, 0, 92], [19, 0, 93]]
                cases.append(close_case(Case(eng, "b%d" % b, ops))); b += 1
                ops = ops + ([[16, 0]] if eng == "sp1" else [[7, 0]]) + [[2, 0, 94]]
                cases.append(close_case(Case(eng, "b%d" % b, ops))); b += 1
        # create_suspend_point whose callback throws, with coroutines already waiting in the ready queue
        for k in (0, 1, 2, 5):
            for t in (0, 1):
                ops = [[14, 3, 500], [2, 3, 501], [7, 3], [20, 0, t, 3000] + [10 + i for i in range(k)],
                       [12, 0, t, 3001, 600, 601], [14, 1, 502], [8, 1], [20, 1, t, 3002, 700]]
                cases.append(close_case(Case(eng, "b%d" % b, ops))); b += 1
    # value reads around every kind of move, awaited values
    ops6 = [[1, 0, 5, 1000], [15, 0, 0], [15, 0, 0], [16, 0], [15, 0, 0], [2, 0, 6], [9, 0], [15, 0, 0], [15, 0, 1]]
    cases.append(close_case(Case("sp1", "b%d" % b, ops6))); b += 1
    # the own handle inside the awaited list, at every position but the last
    cases += self_cases("sp1", "s", (2, 3, 4, 5, 7, 8), False)
    for i in range(n):
        eng = "sp0" if i % 2 == 0 else "sp1"
        aim = rng.choice([[1, 2, 3], [3, 4], [4, 6, 7], [7, 12, 13], [1, 1, 25]])
        cases.append(gen_one(rng, eng, "g%d" % i, rng.randint(3, 25), aim))
    if tier != "quick":
        cases += exhaustive()
    # own handle LAST (needs fixes/C06-await-own-handle-last.patch): few, and at the end of the batch, because on the
    # unrepaired library each of them ends in a use-after-free
    sl = self_cases("sp1", "sl", (1, 2, 4, 5), True)
    cases += sl[:4] if tier == "quick" else sl
    return cases


def nontrivial(case, model_obs):
    allocs = 0
    for l in model_obs:
        a = l.split()
        if len(a) > 3 and a[0] == "0":
            allocs += int(a[3])
    moves = any(o and o[0] in (3, 4, 5, 9, 11, 12, 16, 18, 19, 20) for o in case.ops)
    return allocs > 0 or moves


def signature(case, impl_obs, model_obs):
    # canonical: engine + kind of last impl line (+ the input class of the own-handle-last finding)
    last = impl_obs[-1] if impl_obs else ""
    kind = last.split()[1] if last.startswith("CRASH") and len(last.split()) > 1 else ("HANG" if last == "HANG" else "oracle")
    sim = Sim(case.engine == "sp1")
    for o in case.ops:
        sim.apply(o)
    return "%s:%s%s" % (case.engine, kind, ":self-last" if sim.self_last else "")


PARTS = [{"name": "seq_sp", "harness": "seq_sp.cpp", "gen": gen}]
