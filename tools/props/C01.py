"""C01 — a future is resolved exactly once, by exactly one winner (future.h, awaiter.h)."""
from props import cellcommon
RULE = ("part ctl_cell: controlled schedules (real threads, one runnable at a time, yield at every COCLS_VERIF_POINT) of 2-4 competing "
        "resolvers (value / exception / drop / move-then-destroy / async coroutine completion) plus the final destructor of the shared promise "
        "against 0-2 waiters, for value types int, void, unique_ptr<int>, long&, instance-counted; random, bursty and last-first schedules; thorough adds "
        "every schedule prefix of length 7; non-trivial = at least 3 thread switches in the executed trace. "
        "part seq_prom: op sequences (4-20 ops + 8% malformed) over 4 promise objects, 2 bind closures and 3 futures: get_promise, move construction, "
        "move assignment onto live / empty targets from live / empty / moved-from sources and from a temporary, self assignment, value / exception / "
        "explicit drop calls incl. through empty and moved-from promises, bind + call twice + drop of the closure, destruction, callback and coroutine "
        "waiters parked on the futures, state queries; thorough adds the 3x3 target/source state matrix x waiter kind x 6 follow-up ops; "
        "non-trivial = a move operation was accepted and some future was resolved; distinct = distinct (engine, ops)")
SCOPE = ("promise::claim/set_value/set_exception/drop/~promise/move ctor/operator=(promise&&)/operator bool/bind, future::get_promise/set/resolve/value/"
         "pending/initialized, awaiter::resume_chain_set_ready/resume_chain_lk/subscribe_check_ready, co_awaiter sync/await_*")
ASSUMPTIONS = ["the destructor of the shared promise object runs after every call on that object has returned (C++ object lifetime)",
               "interleaving at the granularity of the hook points (each atomic operation on promise::_owner / future::_awaiter is its own step); sequentially consistent",
               "promise-object operations (move assignment / construction / bind) are modelled sequentially over several futures (PromDefs.v); their interleaving with calls on the same object is covered only through the per-future claim protocol of CellDefs.v (kinds move-then-destroy, drop)"]
def gen(seed, tier): return cellcommon.gen(seed, tier, "resolvers")
def gen_prom(seed, tier): return cellcommon.gen_prom(seed, tier)
nontrivial = cellcommon.nontrivial
signature = cellcommon.signature
PARTS = [{"name": "ctl_cell", "harness": "ctl_cell.cpp", "gen": gen, "no_shrink": False, "timeout_case": 10},
         {"name": "seq_prom", "harness": "seq_prom.cpp", "gen": gen_prom, "no_shrink": False, "timeout_case": 10}]
