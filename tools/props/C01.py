"""C01 — a future is resolved exactly once, by exactly one winner (future.h, awaiter.h)."""
from props import cellcommon
RULE = ("controlled schedules (real threads, one runnable at a time, yield at every COCLS_VERIF_POINT) of 2-4 competing "
        "resolvers (value / exception / drop / move-then-destroy) plus the final destructor of the shared promise against 0-2 waiters, "
        "for value types int, void, unique_ptr<int>, long&, instance-counted; random, bursty and last-first schedules; thorough adds every "
        "schedule prefix of length 7; non-trivial = at least 3 thread switches in the executed trace; distinct = distinct (threads, schedule)")
SCOPE = "promise::claim/set_value/set_exception/drop/~promise/move ctor, future::set/resolve/value, awaiter::resume_chain_set_ready/resume_chain_lk/subscribe_check_ready, co_awaiter sync/await_*"
ASSUMPTIONS = ["the destructor of the shared promise object runs after every call on that object has returned (C++ object lifetime)",
               "interleaving at the granularity of the hook points (each atomic operation on promise::_owner / future::_awaiter is its own step); sequentially consistent"]
def gen(seed, tier): return cellcommon.gen(seed, tier, "resolvers")
def gen_prom(seed, tier): return cellcommon.gen_prom(seed, tier)
nontrivial = cellcommon.nontrivial
signature = cellcommon.signature
PARTS = [{"name": "ctl_cell", "harness": "ctl_cell.cpp", "gen": gen, "no_shrink": False, "timeout_case": 10},
         {"name": "seq_prom", "harness": "seq_prom.cpp", "gen": gen_prom, "no_shrink": False, "timeout_case": 10}]
