"""C11 — thread pool: every submission runs once on a worker or is cancelled once (thread_pool.h, function.h)."""
import itertools, random
from vlib import Case

RULE = ("controlled schedules (real threads, one runnable at a time; scheduling points: every acquisition of the pool mutex, every "
        "condition-variable wake-up, every join, the destructor's lifetime wait) of pools with 1-3 workers and 1-3 client threads issuing "
        "1-6 submissions of the six kinds (co_await pool, co_await pool(awaitable), run(fn), run_detached, resume(suspend_point), run(async)), "
        "job bodies that submit again or call stop() on their own pool, explicit stop() from clients, destructor at the end; random, bursty, "
        "workers-first and clients-first schedules; thorough adds every schedule prefix of length 8 over 3 choices for small configurations; "
        "non-trivial = at least 3 thread switches in the executed trace and (a stop()/self-stop races with a submission or >= 2 submissions); "
        "distinct = distinct (program, schedule)")
SCOPE = ("thread_pool constructor/worker()/stop()/~thread_pool/enqueue(), co_awaiter (unique_ptr deleter), enqueue_awaiter, resume(suspend_point), "
         "run(fn), run_detached(fn), run(async), function<void()> ownership of a rejected / swapped-out closure")
ASSUMPTIONS = [
    "object lifetime: ~thread_pool starts after every call made by another client thread has returned and when no stop() issued by a job is "
    "pending, in progress or still queued (otherwise a destructor racing with a job's stop() finds the worker list already swapped out and "
    "returns while workers still use the mutex; see notes/C11.md, observation O1)",
    "a job that called stop() on its own pool does not touch the pool afterwards (its worker is detached)",
    "interleaving at the granularity of critical sections of the pool mutex; sequentially consistent; std::condition_variable modelled by "
    "notification tokens (any sleeper may take a token: covers every choice of notify_one and spurious wake-ups that find the predicate false)",
    "job bodies of the bare-handle kinds (resume(suspend_point), pool(awaitable)) do not call stop()",
]
TRUSTED_EXTRA = ["harness/ctl_pool.cpp maps std::condition_variable / std::thread to observing substitutes while compiling thread_pool.h"]

KINDS = [0, 1, 2, 3, 4, 5]
OWNED = [0, 2, 3, 5]
WEIGHTED_ALL = [0, 0, 2, 2, 3, 5, 5, 1, 1, 4, 4]   # the bare-handle kinds (known finding) appear in a quarter of the programs


def mk(name, n, prog, sched):
    """prog: list of ('s', client, kind, body, bkind) | ('x', client)"""
    ops = [[1, n]]
    for p in prog:
        if p[0] == 's':
            ops.append([2, p[1], p[2], p[3], p[4]])
        else:
            ops.append([3, p[1]])
    ops.append([9] + list(sched))
    return Case("pool", name, ops)


def rand_sched(rng, L, nthreads):
    style = rng.random()
    hi = nthreads + 1
    if style < 0.45:
        return [rng.randint(0, hi) for _ in range(L)]
    if style < 0.65:      # bursts: one thread runs for a while (exposes windows)
        s = []
        while len(s) < L:
            s += [rng.randint(0, hi)] * rng.randint(1, 5)
        return s[:L]
    if style < 0.8:       # mostly the last enabled thread first (workers before clients)
        return [rng.choice([hi, hi, hi - 1, 0]) for _ in range(L)]
    if style < 0.9:       # clients first, workers starve until the clients block
        return [0] * L
    return [rng.choice([0, 1]) for _ in range(L)]


def gen_prog(rng):
    WEIGHTED = WEIGHTED_ALL if rng.random() < 0.25 else OWNED
    m = rng.choice([1, 1, 2, 2, 3])
    ns = rng.choice([1, 2, 2, 3, 3, 4, 5, 6])
    prog = []
    for _ in range(ns):
        cl = rng.randrange(m)
        k = rng.choice(WEIGHTED)
        r = rng.random()
        body = 0 if r < 0.5 else (1 if r < 0.78 else 2)
        prog.append(('s', cl, k, body, rng.choice(WEIGHTED)))
    # explicit stops: none / one somewhere / one on another client racing with the submissions / two
    r = rng.random()
    if r < 0.35:
        pass
    elif r < 0.7:
        prog.insert(rng.randrange(len(prog) + 1), ('x', rng.randrange(m)))
    elif r < 0.9:
        prog.insert(rng.randrange(len(prog) + 1), ('x', m - 1))
        if m > 1:
            prog.append(('s', 0, rng.choice(WEIGHTED), 0, 0))
    else:
        prog.insert(rng.randrange(len(prog) + 1), ('x', rng.randrange(m)))
        prog.insert(rng.randrange(len(prog) + 1), ('x', rng.randrange(m)))
    return m, prog


def gen(seed, tier):
    rng = random.Random(seed * 1000003 + 1111)
    n_cases = 600 if tier == "quick" else 6000
    cases = []
    # fixed boundary programs: every kind submitted to a stopped pool / swapped out by stop / run, pool of 1
    b = 0
    for k in KINDS:
        cases.append(mk("b%d" % b, 1, [('x', 0), ('s', 0, k, 0, 0)], [])); b += 1             # rejected in the caller
        cases.append(mk("b%d" % b, 1, [('s', 0, 3, 0, 0), ('s', 0, k, 0, 0), ('x', 0)], [0] * 6)); b += 1   # swapped out
        cases.append(mk("b%d" % b, 2, [('s', 0, k, 0, 0)], [1, 1, 1, 0])); b += 1              # runs
        cases.append(mk("b%d" % b, 1, [('s', 0, 2, 2, 0), ('s', 0, k, 0, 0)], [0, 0, 1, 1, 1, 1])); b += 1  # swapped out by a self-stop
        cases.append(mk("b%d" % b, 2, [('s', 0, 0, 1, k), ('x', 1)], [0, 2, 1, 1, 0, 0])); b += 1           # nested submission after stop
    for i in range(n_cases):
        n = rng.choice([1, 1, 2, 2, 3])
        m, prog = gen_prog(rng)
        L = rng.choice([0, 6, 12, 20, 30, 45])
        cases.append(mk("g%d" % i, n, prog, rand_sched(rng, L, m + n)))
    # malformed stream: bad kinds / clients / sizes are ignored identically on both sides
    for i in range(12):
        ops = [[1, rng.choice([0, 1, 2, 7])], [2, rng.choice([0, 5]), rng.choice([0, 9]), rng.choice([0, 3]), rng.choice([0, 6])],
               [2, 0, 2, 0], [3, rng.choice([1, 4])], [2, 1, rng.choice(KINDS), 1, 3], [7, 1], [9] + [rng.randint(0, 4) for _ in range(10)]]
        cases.append(Case("pool", "m%d" % i, ops))
    if tier != "quick":
        cfgs = [
            (1, [('s', 0, 0, 0, 0), ('s', 0, 2, 0, 0), ('x', 0)]),
            (2, [('s', 0, 3, 2, 0), ('s', 0, 0, 0, 0)]),
            (2, [('s', 0, 0, 1, 2), ('x', 1)]),
            (1, [('s', 0, 5, 0, 0), ('x', 1), ('s', 0, 4, 0, 0)]),
            (2, [('s', 0, 2, 2, 0), ('s', 1, 3, 2, 0)]),
            (3, [('s', 0, 1, 0, 0), ('s', 0, 3, 0, 0), ('s', 0, 0, 0, 0)]),
            (2, [('s', 0, 0, 2, 0), ('s', 1, 2, 1, 0), ('x', 1)]),
        ]
        j = 0
        for (n, prog) in cfgs:
            for pre in itertools.product(range(3), repeat=8):
                cases.append(mk("x%d" % j, n, prog, pre)); j += 1
    return cases


def canon(obs):
    """events emitted inside one step are compared as a multiset (their order depends on the coroutine ready queue, C05)"""
    out, blk = [], []
    for l in obs:
        if l.startswith("100 "):
            blk.append(l)
        else:
            out += sorted(blk); blk = []
            out.append(l)
    return out + sorted(blk)


def obs_equal(case, m, i):
    return canon(m) == canon(i)


def nontrivial(case, model_obs):
    tids = [l.split()[0] for l in model_obs if len(l.split()) == 2]
    switches = sum(1 for a, b in zip(tids, tids[1:]) if a != b)
    subs = sum(1 for o in case.ops if o and o[0] == 2)
    stops = sum(1 for o in case.ops if o and (o[0] == 3 or (o[0] == 2 and len(o) == 5 and o[3] == 2)))
    return switches >= 3 and (subs >= 2 or (subs >= 1 and stops >= 1))


def signature(case, impl_obs, model_obs):
    last = impl_obs[-1] if impl_obs else ""
    if last.startswith("CRASH"):
        return "pool:" + last.split()[1]
    if last in ("HANG", "MISSING"):
        return "pool:" + last
    if any(l.startswith("777") for l in impl_obs):
        return "pool:deadlock"
    if any(l.startswith("888") for l in impl_obs):
        return "pool:use-after-destroy"
    if any(l.startswith("666") for l in impl_obs):
        return "pool:yield-under-lock"
    forgotten, other = 0, 0
    for l in impl_obs:
        a = l.split()
        if a[0] == "200" and len(a) == 7:
            kind, ran, canc, ws = int(a[2]), int(a[3]), int(a[4]), int(a[5])
            if kind in (1, 4) and ran == 0 and canc == 0 and ws == 0:
                forgotten += 1      # bare [h] closure destroyed un-run: nobody resumes the coroutine
            elif ran + canc != 1 or ws != (1 if ran == 1 else 2):
                other += 1
        elif a[0] == "100" and (len(a) != 5 or a[4] != "0"):
            other += 1
    if forgotten and not other and obs_equal(case, model_obs, impl_obs):
        return "pool:bare-handle-forgotten"
    return "pool:oracle"


PARTS = [{"name": "ctl_pool", "harness": "ctl_pool.cpp", "gen": gen, "no_shrink": False, "timeout_case": 6}]
