"""C11 — thread pool: every submission runs once on a worker or is cancelled once (thread_pool.h, function.h)."""
import itertools, random
from vlib import Case

RULE = ("controlled schedules (real threads, one runnable at a time; scheduling points: every acquisition of the pool mutex incl. the "
        "is_stopped/any_enqueued queries, every condition-variable wake-up, every join, the unlocked read of thread_pool::current, the "
        "destructor's lifetime wait) of pools with 1-3 workers and 1-3 client threads issuing 1-6 submissions of the six kinds (co_await pool, "
        "co_await pool(awaitable), run(fn), run_detached, resume(suspend_point), run(async)) whose job bodies are lists of up to 4 pool "
        "operations (submit again / run_detached from a worker, stop() on the own pool, current::is_stopped(), current::any_enqueued(), "
        "co_await thread_pool::current(), waiting for the outcome of another submission, run(async) coroutines suspending on a later job), "
        "resume(suspend_point) with 1..9 prepared coroutines, clients waiting for a submission, explicit stop() from clients, client threads calling worker(), destructor at the end (racing "
        "with job-issued stops); random, bursty, workers-first and clients-first schedules; every schedule prefix of length 5 over 3 choices "
        "for the two destructor-vs-job-stop configurations; thorough adds every prefix of length 8 for 9 small configurations; non-trivial = "
        "at least 3 thread switches in the executed trace and (a stop()/self-stop races with a submission or >= 2 submissions); distinct = "
        "distinct (program, schedule)")
SCOPE = ("thread_pool constructor/worker()/stop()/~thread_pool/enqueue(), co_awaiter (unique_ptr deleter), enqueue_awaiter, resume(suspend_point), "
         "run(fn), run_detached(fn), run(async), current::operator co_await/is_stopped/any_enqueued, is_stopped(), any_enqueued(), "
         "function<void()> ownership of a rejected / swapped-out closure")
ASSUMPTIONS = [
    "object lifetime: ~thread_pool starts after every call made by another client thread has returned (jobs, including jobs that call "
    "stop(), may be running: the destructor waits for them)",
    "a job that called stop() on its own pool does not touch the pool afterwards (its worker is detached); bodies end with stop()",
    "a client thread that calls worker() relies on somebody else stopping the pool; if nobody does, the client program deadlocks itself "
    "(`user_stuck` in PoolLive.v) - the generator always adds such a stop",
    "a job / client that waits for the outcome of a submission makes the program depend on it: programs with waits have >= 2 workers, one "
    "waiting job, no stop() before the destructor, and client 0 waits for the awaited submission before destroying the pool (otherwise "
    "the program deadlocks itself: `waits_for_submission` in PoolLive.v)",
    "interleaving at the granularity of critical sections of the pool mutex; sequentially consistent (the unlocked read of _exit in "
    "current::await_ready is a data race in the C++ sense; it is modelled as one atomic step); std::condition_variable modelled: notify_all "
    "flags the threads sleeping at that moment, notify_one adds an anonymous token (any sleeper may take it: covers every choice and "
    "spurious wake-ups that find the predicate false)",
]
TRUSTED_EXTRA = ["harness/ctl_pool.cpp maps std::condition_variable / std::thread to observing substitutes while compiling thread_pool.h",
                 "job bodies run with the thread's coroutine ready queue switched off (a cancelled coroutine is resumed at once): the ready queue is C05's subject"]

KINDS = [0, 1, 2, 3, 4, 5]
TOPKINDS = KINDS + [6]   # 6 (top level only): run_detached of a callable whose move into the queue throws
# body actions: 0..5 submit a closure of that kind, 6 stop() (last), 7 is_stopped(), 8 any_enqueued(), 9 co_await current()


def mk(name, n, prog, sched):
    """prog: list of ('s', client, kind, [actions]) | ('x', client) stop | ('w', client) worker() | ('j', client, label) wait
    | ('r', client, k) resume(suspend_point) with k prepared coroutines (k submissions of kind 4)"""
    ops = [[1, n]]
    for p in prog:
        if p[0] == 's':
            ops.append([2, p[1], p[2]] + list(p[3]))
        elif p[0] == 'x':
            ops.append([3, p[1]])
        elif p[0] == 'j':
            ops.append([5, p[1], p[2]])
        elif p[0] == 'r':
            ops.append([6, p[1], p[2]])
        else:
            ops.append([4, p[1]])
    ops.append([9] + list(sched))
    return Case("pool", name, ops)


def rand_sched(rng, L, nthreads):
    style = rng.random()
    hi = nthreads + 1
    if style < 0.45:
        return [rng.randint(0, hi) for _ in range(L)]
    if style < 0.65:      # bursts: one thread runs for a while (exposes windows)
        s = []
        while len(s) < L:
            s += [rng.randint(0, hi)] * rng.randint(1, 5)
        return s[:L]
    if style < 0.8:       # mostly the last enabled thread first (workers before clients)
        return [rng.choice([hi, hi, hi - 1, 0]) for _ in range(L)]
    if style < 0.9:       # clients first, workers starve until the clients block
        return [0] * L
    return [rng.choice([0, 1]) for _ in range(L)]


def rand_body(rng):
    r = rng.random()
    if r < 0.4:
        return []
    n = rng.choice([1, 1, 1, 2, 2, 3, 4])
    acts = []
    for _ in range(n):
        x = rng.random()
        if x < 0.5:
            acts.append(rng.choice(KINDS))
        elif x < 0.65:
            acts.append(rng.choice([7, 8]))
        elif x < 0.85:
            acts.append(9)
        else:
            acts.append(6)
            break
    return acts


def gen_wait_prog(rng):
    """client 0 submits a job that waits for a later submission t and then waits for t itself before destroying the pool;
    no stop() anywhere (a stop joins the waiting job's worker before it cancels t: the program would deadlock itself)"""
    m = rng.choice([1, 2, 2])
    ns = rng.choice([2, 3, 4])
    t = rng.randrange(1, ns)
    a = rng.randrange(0, t)
    prog = []
    for i in range(ns):
        body = [x for x in rand_body(rng) if x not in (6,)][:3]
        if i == a:
            body = [10 + t] + body
        cl = 0 if i in (a, t) else rng.randrange(m)
        prog.append(('s', cl, rng.choice(KINDS), body))
    prog.append(('j', 0, t))
    if rng.random() < 0.5:
        prog.append(('j', 0, rng.randrange(ns)))
    return m, prog


def gen_prog(rng):
    m = rng.choice([1, 1, 2, 2, 3])
    ns = rng.choice([1, 2, 2, 3, 3, 4, 5, 6])
    prog = []
    for _ in range(ns):
        prog.append(('s', rng.randrange(m), rng.choice(TOPKINDS), rand_body(rng)))
    # resume(suspend_point) with several prepared coroutines (heap-backed suspend points above 3)
    if rng.random() < 0.2:
        prog.insert(rng.randrange(len(prog) + 1), ('r', rng.randrange(m), rng.choice([1, 2, 3, 4, 4, 5, 6, 7, 9])))
    # a run(async) coroutine that suspends on something a later submission resolves: the worker must stay free
    subs = [i for i, p in enumerate(prog) if p[0] == 's']
    if len(subs) >= 2 and rng.random() < 0.25:
        pos = 0; labels = {}
        for i, p in enumerate(prog):
            if p[0] == 's':
                labels[i] = pos; pos += 1
            elif p[0] == 'r':
                pos += p[2]
        a = rng.choice(subs[:-1]); t = rng.choice([x for x in subs if x > a])
        prog[a] = ('s', prog[a][1], 5, [x for x in prog[a][3] if x != 6][:3] + [50 + labels[t]])
    # explicit stops: none / one somewhere / one on another client racing with the submissions / two
    r = rng.random()
    if r < 0.35:
        pass
    elif r < 0.7:
        prog.insert(rng.randrange(len(prog) + 1), ('x', rng.randrange(m)))
    elif r < 0.9:
        prog.insert(rng.randrange(len(prog) + 1), ('x', m - 1))
        if m > 1:
            prog.append(('s', 0, rng.choice(KINDS), []))
    else:
        prog.insert(rng.randrange(len(prog) + 1), ('x', rng.randrange(m)))
        prog.insert(rng.randrange(len(prog) + 1), ('x', rng.randrange(m)))
    # an external thread becomes a worker; client 0 stops the pool at the end so that worker() returns
    if m > 1 and rng.random() < 0.25:
        if rng.random() < 0.7:
            prog.insert(rng.randrange(len(prog) + 1), ('w', rng.randrange(1, m)))
            prog.append(('x', 0))
        else:
            # client 0 itself works in the pool until another client stops it, then destroys it
            prog.insert(rng.randrange(len(prog) + 1), ('w', 0))
            prog.append(('x', rng.randrange(1, m)))
    return m, prog


def gen(seed, tier):
    rng = random.Random(seed * 1000003 + 1111)
    n_cases = 600 if tier == "quick" else 6000
    cases = []
    # fixed boundary programs: every kind submitted to a stopped pool / swapped out by stop / run, pool of 1
    b = 0
    for k in KINDS:
        cases.append(mk("b%d" % b, 1, [('x', 0), ('s', 0, k, [])], [])); b += 1              # rejected in the caller
        cases.append(mk("b%d" % b, 1, [('s', 0, 3, []), ('s', 0, k, []), ('x', 0)], [0] * 6)); b += 1   # swapped out
        cases.append(mk("b%d" % b, 2, [('s', 0, k, [])], [1, 1, 1, 0])); b += 1              # runs
        cases.append(mk("b%d" % b, 1, [('s', 0, 2, [6]), ('s', 0, k, [])], [0, 0, 1, 1, 1, 1])); b += 1   # swapped out by a self-stop
        cases.append(mk("b%d" % b, 2, [('s', 0, 0, [k]), ('x', 1)], [0, 2, 1, 1, 0, 0])); b += 1         # nested submission after stop
        cases.append(mk("b%d" % b, 2, [('s', 0, k, [7, 9, 8, k]), ('x', 1)], [1, 1, 2, 0, 2, 2, 1])); b += 1   # queries + hop
    # destructor against a stop() issued by a job: the destructor must wait for that stop
    for pre in itertools.product(range(3), repeat=5):
        cases.append(mk("d%d" % b, 2, [('s', 0, 3, [6]), ('s', 0, 3, [])], list(pre) + [0] * 4)); b += 1
    # a callable whose move constructor throws exactly at _queue.push(): run_detached throws, the callable must be destroyed
    # in the caller (exactly one outcome), nothing is queued; on a stopped pool nothing is moved and nothing throws
    for n in (1, 2):
        cases.append(mk("t%d" % b, n, [('s', 0, 6, []), ('s', 0, 3, [])], [1, 0, 1, 0, 2])); b += 1
        cases.append(mk("t%d" % b, n, [('x', 0), ('s', 0, 6, [])], [0, 1, 0, 2])); b += 1
        cases.append(mk("t%d" % b, n, [('s', 0, 2, [7]), ('s', 1, 6, [7]), ('s', 0, 6, []), ('x', 1)], [0, 2, 1, 0, 1, 2, 0, 3])); b += 1
        cases.append(mk("t%d" % b, n, [('s', 0, 6, []), ('s', 0, 6, []), ('s', 0, 0, []), ('j', 0, 2)], [0, 0, 1, 0, 1, 2])); b += 1
    # three concurrent stop() callers from outside the pool while the only worker is busy: the first one joins, the other two
    # wait for it and both have to be woken when it has finished
    for pre in itertools.product(range(4), repeat=5):
        cases.append(mk("c%d" % b, 1, [('s', 0, 3, [7, 8, 7]), ('x', 0), ('x', 1), ('x', 2)], list(pre) + [3, 2, 1, 0] * 3)); b += 1
    for pre in itertools.product(range(3), repeat=4):
        cases.append(mk("c%d" % b, 2, [('s', 1, 2, [7, 6]), ('s', 0, 0, [8, 7]), ('x', 1), ('x', 2), ('x', 0)], list(pre) + [4, 0, 3, 1] * 3)); b += 1
    # resume(suspend_point) with 1..9 prepared coroutines: every one of them has to reach the pool (and run on a worker)
    for k in range(1, 10):
        cases.append(mk("r%d" % b, 2, [('r', 0, k)], [1, 2, 0] * 4)); b += 1
        cases.append(mk("r%d" % b, 1, [('s', 0, 3, []), ('r', 0, k), ('x', 0)], [0] * (k + 3))); b += 1
        cases.append(mk("r%d" % b, 3, [('r', 1, k), ('s', 0, 0, [7])], [rng.randint(0, 4) for _ in range(12)])); b += 1
    # run(async) whose coroutine suspends until a later job of the same pool has run: pools of 1 and 2 workers
    for k in KINDS:
        for n in (1, 2):
            cases.append(mk("a%d" % b, n, [('s', 0, 5, [51]), ('s', 0, k, [])], [1, 0, 1, 0, 1, 2])); b += 1
            cases.append(mk("a%d" % b, n, [('s', 0, 5, [7, 51]), ('s', 0, k, []), ('j', 0, 1)], [0, 0, 1, 1, 2, 0])); b += 1
            cases.append(mk("a%d" % b, n, [('s', 0, 5, [51]), ('x', 1), ('s', 0, k, [])], [0, 1, 2, 0, 1, 2])); b += 1
    # a job that waits for the outcome of a later submission: needs a second worker to be woken for it (or a stop to cancel it)
    for pre in itertools.product(range(3), repeat=5):
        cases.append(mk("w%d" % b, 2, [('s', 0, 3, [11]), ('s', 0, 2, []), ('j', 0, 1)], list(pre) + [0, 1, 2] * 3)); b += 1
    for k in KINDS:
        cases.append(mk("w%d" % b, 3, [('s', 0, k, [11, 7]), ('s', 0, k, []), ('s', 1, 3, []), ('j', 0, 1)], [0, 0, 1, 3, 2, 1, 0, 2])); b += 1
        cases.append(mk("w%d" % b, 2, [('s', 0, k, [11]), ('s', 0, k, []), ('j', 0, 1), ('j', 0, 0)], [0, 0, 1, 2, 1, 0, 2, 2])); b += 1
    # a client thread that worked in the pool (worker()) destroys it while a job-issued stop() is still joining
    for pre in itertools.product(range(3), repeat=5):
        cases.append(mk("e%d" % b, 2, [('s', 0, 3, [6]), ('s', 0, 3, []), ('w', 0)], list(pre) + [1, 2, 0, 1, 2, 0])); b += 1
    for i in range(n_cases):
        n = rng.choice([1, 1, 2, 2, 3])
        if i % 6 == 5:
            n = rng.choice([2, 2, 3])
            m, prog = gen_wait_prog(rng)
        else:
            m, prog = gen_prog(rng)
        L = rng.choice([0, 6, 12, 20, 30, 45])
        cases.append(mk("g%d" % i, n, prog, rand_sched(rng, L, m + n)))
    # malformed stream: bad kinds / clients / sizes are ignored identically on both sides
    for i in range(12):
        ops = [[1, rng.choice([0, 1, 2, 7])], [2, rng.choice([0, 5]), rng.choice([0, 9]), rng.choice([0, 3]), rng.choice([0, 60])],
               [2, 0, 2, 6, 0], [2, 0], [3, rng.choice([1, 4])], [2, 1, rng.choice(KINDS), 1, 3, 9, 9, 9, 9, 9], [7, 1], [4, 3],
               [9] + [rng.randint(0, 4) for _ in range(10)]]
        cases.append(Case("pool", "m%d" % i, ops))
    if tier != "quick":
        cfgs = [
            (1, [('s', 0, 0, []), ('s', 0, 2, []), ('x', 0)]),
            (2, [('s', 0, 3, [6]), ('s', 0, 0, [])]),
            (2, [('s', 0, 0, [2]), ('x', 1)]),
            (1, [('s', 0, 5, []), ('x', 1), ('s', 0, 4, [])]),
            (2, [('s', 0, 2, [6]), ('s', 1, 3, [6])]),
            (3, [('s', 0, 1, []), ('s', 0, 3, []), ('s', 0, 0, [])]),
            (2, [('s', 0, 0, [6]), ('s', 1, 2, [0]), ('x', 1)]),
            (1, [('s', 0, 3, [9, 3]), ('w', 1), ('x', 0)]),
            (2, [('s', 0, 4, [7, 9, 6]), ('s', 1, 1, [])]),
        ]
        j = 0
        for (n, prog) in cfgs:
            for pre in itertools.product(range(3), repeat=8):
                cases.append(mk("x%d" % j, n, prog, pre)); j += 1
    # engine poolf: the same programs under a finer interleaving (every unlock of the pool mutex is a scheduling point as
    # well); no model prediction there, the property oracle alone judges the implementation's trace
    fine = []
    for c in cases:
        if c.name[0] in "dce" or (c.name[0] == "g" and int(c.name[1:]) % 4 == 0):
            fine.append(Case("poolf", "f" + c.name, c.ops))
    for pre in itertools.product(range(3), repeat=6):
        fine.append(mk("fd%d" % b, 2, [('s', 0, 3, [6]), ('s', 0, 0, []), ('s', 0, 2, [])], list(pre) + [0, 1, 2] * 4)); b += 1
        fine[-1].engine = "poolf"
    return cases + fine


def close_case(c):
    """keep shrunk cases inside the class of programs the property speaks about (programs that do not deadlock themselves):
    * a client thread that calls worker() needs somebody else to stop the pool;
    * a wait needs an existing submission; a job that waits for a submission needs a second worker, and client 0 has to
      wait for that submission too before it destroys the pool (a stop() joins the waiting job's worker before it cancels
      the queued tasks)."""
    ops = [list(o) for o in c.ops]
    sched = [o for o in ops if o and o[0] == 9]
    ops = [o for o in ops if not (o and o[0] == 9)]
    nsub = 0
    for o in ops:   # count accepted submissions the way the decoder does (roughly: well-formed ones)
        if len(o) >= 3 and o[0] == 2 and 0 <= o[1] <= 2 and 0 <= o[2] <= 5 and len(o) <= 9:
            nsub += 1
    # drop waits for submissions that do not exist
    ops = [o for o in ops if not (len(o) == 3 and o[0] == 5 and not (0 <= o[2] < nsub))]
    for o in ops:
        if len(o) >= 3 and o[0] == 2:
            o[3:] = [x for x in o[3:] if not (10 <= x < 50 and x - 10 >= nsub)]
    targets = sorted({x - 10 for o in ops if len(o) >= 3 and o[0] == 2 for x in o[3:] if 10 <= x < 50})
    if targets:
        ops = [o for o in ops if not (len(o) == 2 and o[0] == 1)]
        ops.insert(0, [1, 2])
        for t in targets:
            if not any(len(o) == 3 and o[0] == 5 and o[1] == 0 and o[2] == t for o in ops):
                ops.append([5, 0, t])
    workers = [o[1] for o in ops if len(o) == 2 and o[0] == 4 and 0 <= o[1] <= 2]
    if workers:
        last_w = max(i for i, o in enumerate(ops) if len(o) == 2 and o[0] == 4)
        cl = ops[last_w][1]
        if not any(len(o) == 2 and o[0] == 3 and o[1] != cl and 0 <= o[1] <= 2 for o in ops[last_w:]):
            ops.append([3, 1 if cl == 0 else 0])
    return Case(c.engine, c.name, ops + sched, c.meta)


def canon(obs):
    """events emitted inside one step are compared as a multiset (their order depends on the coroutine ready queue, C05)"""
    out, blk = [], []
    for l in obs:
        if l.startswith("100 "):
            blk.append(l)
        else:
            out += sorted(blk); blk = []
            out.append(l)
    return out + sorted(blk)


def obs_equal(case, m, i):
    if case.engine == "poolf":
        return True    # finer interleaving than the model's steps: only the property oracle judges the trace
    return canon(m) == canon(i)


def nontrivial(case, model_obs):
    tids = [l.split()[0] for l in model_obs if len(l.split()) == 2]
    switches = sum(1 for a, b in zip(tids, tids[1:]) if a != b)
    subs = sum(1 for o in case.ops if o and o[0] == 2)
    stops = sum(1 for o in case.ops if o and (o[0] == 3 or (o[0] == 2 and 6 in o[3:])))
    return switches >= 3 and (subs >= 2 or (subs >= 1 and stops >= 1))


def signature(case, impl_obs, model_obs):
    last = impl_obs[-1] if impl_obs else ""
    if last.startswith("CRASH"):
        return "pool:" + last.split()[1]
    if last in ("HANG", "MISSING"):
        return "pool:" + last
    if any(l.startswith("777") for l in impl_obs):
        return "pool:deadlock"
    if any(l.startswith("888") for l in impl_obs):
        return "pool:use-after-destroy"
    if any(l.startswith("666") for l in impl_obs):
        return "pool:yield-under-lock"
    return "pool:oracle"


PARTS = [{"name": "ctl_pool", "harness": "ctl_pool.cpp", "gen": gen, "no_shrink": False, "timeout_case": 6}]
