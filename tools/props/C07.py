"""C07 — coroutine mutex: mutual exclusion and exactly-once grant (mutex.h, awaiter.h)."""
from props import mutexcommon
RULE = ("part ctl_mutex: controlled schedules (real threads, one runnable at a time; the harness supplies std::atomic<awaiter*>, so EVERY atomic operation on mutex::_requests is a scheduling point, marked by the library or not; further points: m_pub, the blocking "
        "flag wait, inside the critical section and at every round boundary) of 2-4 contenders (coroutines / blocking threads), 1-3 rounds "
        "each, acquisition by co_await lock() / lock().wait() / try_lock(), release by ownership destruction / release() discarded / "
        "co_await release(); random, bursty, highest-first and sparse-preemption schedules, a malformed-declaration stream, and directed schedules (all interleavings of a release with a request in flight, try_lock racing unlock, two late arrivals between an owner's publishing CAS and its build_queue with 4 contenders, 4 parties on 3 threads with a thread still in await_suspend, retry windows (other contenders complete whole operations between two adjacent atomic operations of a requester), the same schedule under every release flavour and every blocking/coroutine mix); thorough adds "
        "every schedule prefix of length 13 (2 contenders x 2 rounds) / 9 (3 x 1) and all pairs of single-step preemptions; "
        "non-trivial = at least 3 OS-thread switches in the executed trace; distinct = distinct (contenders, schedule); part seq_own: sequential op sequences (4-24 ops) over two mutexes and four ownership slots: try_lock into a slot, callback-style requests (await_suspend(resume_fn)) whose grant is stored into a slot - also the slot being released / overwritten -, release (twice), destruction, move assignment onto holding / empty / the same slot, move construction, bool, probing try_lock; non-trivial = at least 5 ops of at least 3 kinds; part seq_bare: 1-5 coroutines that run WITHOUT a coro_queue (started and continued by handle.resume()), each lock / wait at a gate / release (destruction, release() discarded, co_await release()), gates opened in and out of order; non-trivial = at least two coroutines and one gate opened")
SCOPE = ("mutex::ready/subscribe/build_queue/unlock/try_lock/lock, mutex::ownership (deleter, release), co_awaiter<mutex> "
         "await_ready/await_suspend/await_resume/sync/wait, sync_awaiter, coro_queue resume/flush_queue/install_queue_and_call, "
         "suspend_point<void> destructor and await_suspend as used by the mutex")
ASSUMPTIONS = ["interleaving at the granularity of atomic operations (each load / exchange / compare_exchange on mutex::_requests is its own step, independent of hook placement; the code "
               "between two points, including the build_queue loop on the detached chain, is one step); sequentially consistent",
               "a blocking lock().wait() is only issued from a plain thread (the library asserts this), co_await only from coroutines"]
def gen(seed, tier): return mutexcommon.gen(seed, tier, "mutex")
def gen_own(seed, tier): return mutexcommon.gen_own(seed, tier, "mutex")
nontrivial = mutexcommon.nontrivial_any
signature = mutexcommon.signature
PARTS = [{"name": "ctl_mutex", "harness": "ctl_mutex.cpp", "gen": gen, "no_shrink": True, "timeout_case": 5},
         {"name": "seq_own", "harness": "seq_mutex_own.cpp", "gen": gen_own, "no_shrink": False, "timeout_case": 5},
         {"name": "seq_bare", "harness": "seq_mutex_bare.cpp", "gen": mutexcommon.gen_bare, "no_shrink": False, "timeout_case": 5}]
