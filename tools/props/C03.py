"""C03 — cross-thread operations are data-race free and publish results safely
(awaiter.h, future.h, mutex.h, coro_storage.h, generator.h; queue.h, thread_pool.h, scheduler.h, publisher.h).

The tie to the source is the TRANSLATOR tools/extract_sync.py, run by generate(ctx) on every check: it reads the memory
order of every anchored atomic operation and the lock skeleton of every method of the mutex-guarded classes from clang's
AST of $COCLS_REPO and writes coq/gen/SyncGen.v; Properties_C03.v is re-checked by the Coq kernel against that file.
Supporting evidence: real-thread scenarios under ThreadSanitizer (harness/tsan_c03.cpp, engine "tsan")."""
import json, os, random, re, sys
import vlib
from vlib import Case

sys.path.insert(0, os.path.join(vlib.VERIF, "tools"))
import extract_sync

RULE = ("obligations: Coq theorems + side conditions evaluated by vm_compute on the orders/skeletons the translator reads from the "
        "source on every run. Cases: real-thread ThreadSanitizer scenarios (1 poll ready() then read, 2 refused subscribe then read, "
        "3 blocking wait, 4 coroutine awaiter resumed by the resolver, 5 two threads on one reusable_storage_mtsafe, 6 counter under "
        "the coroutine mutex with 3 threads, 7 queue push/pop across threads, 8 generator next_sync with the generator continuing in a "
        "pool thread, 9 publisher publish/next/position/subscribe from 4 threads, 10 thread_pool + scheduler submit/cancel from several "
        "threads, 11 four threads contending lock()/try_lock() on one coroutine mutex while the owner hands over / rebuilds its queue, 12 two threads calling one promise (value/value, value/drop) with winner count and payload check, 13 two publisher threads + two blocked subscribers, 14 has_value() waiter polling / blocking while another thread resolves, 15 a pool task calling stop() while the owner deletes the pool, 16 discard() of a pending future resolved by another thread, 17 publisher with a limited queue and heap-owning items read by a lagging subscriber); each case = (scenario, iteration count), every iteration uses fresh objects and checks value integrity; "
        "non-trivial = at least 5 iterations; distinct = distinct (scenario, iterations) list")
SCOPE = ("release/acquire protocols P1 payload publication, P2 awaiter-node publication (future, signal, mutex instances), P3 mutex data hand-off, "
         "P4 reusable_storage_mtsafe, P5 generator _block, P6 promise _owner; lock skeletons of queue, limited_queue, thread_pool, scheduler, "
         "publisher::queue")
ASSUMPTIONS = [
    "view-based release/acquire semantics (RADefs.v) is a model of the C++20 memory model: seq_cst treated as acq_rel, consume as relaxed, no SC fences, "
    "plain stores appended at the end of the modification order (justified per protocol in notes/C03.md)",
    "P2/P3: the pointer chain through awaiter::_next denotes the ghost list carried by the slot value (true in every race-free prefix)",
    "P5: the generator is handed to the thread that continues it under some happens-before edge (thread pool mutex, scheduler ...)",
    "P6: the future was constructed before the promise reached the competing threads (their views contain that write)",
    "lockset: construction/destruction and scheduler start()/stop() life-cycle members (_glob_state, _elide_state) are excluded (single owner thread)",
    "promise destructor runs after every call on that promise object returned (C++ object lifetime)",
]
TRUSTED_EXTRA = [
    "tools/extract_sync.py (translator: locates atomic sites by class/function/object/operation, builds lock CFGs) and clang 14 -ast-dump=json",
    "ThreadSanitizer scenarios are supporting evidence only: TSan (clang 14) does not model atomic_thread_fence; the harness shims the fence "
    "(performs it and, only if it is executed with an acquire order, annotates acquire on the atomic just read)",
]

INFO = {}

# which TSan scenarios exercise which obligation (used by the search step)
OBLIGATION_SCENARIOS = {"p1": [1, 2, 3, 4], "p2_future": [4, 3], "p2_signal": [], "p2_mutex": [6], "p3": [6], "p4": [5], "p5": [8],
                        "p6": [12, 1], "lockset": [13, 17, 15, 7, 9, 10], "touch": [16, 6, 4, 11], "owner": [14, 16, 11, 6, 5, 4, 8], "complete": [12, 1]}


def generate(ctx):
    """translator: regenerate coq/gen/SyncGen.v from the working tree of $COCLS_REPO"""
    out = os.path.join(vlib.COQ, "gen", "SyncGen.v")
    try:
        info = extract_sync.generate(vlib.REPO, out, os.path.join(ctx.tmp, "sync.json"))
    except Exception as e:   # never silently keep a stale file
        if os.path.exists(out):
            os.remove(out)
        ctx.notes.append({"kind": "translator", "theorem": "c03_translator_complete", "log": "extract_sync failed: %r" % (e,)})
        return
    INFO.update(info)
    if not info["complete"]:
        ctx.notes.append({"kind": "translator", "theorem": "c03_translator_complete", "problems": info["problems"]})
    for p in info.get("guard_problems", []):
        ctx.notes.append({"kind": "lockset", "theorem": "c03_guarded_state", "problem": p})
    for p in info.get("owner_problems", []):
        ctx.notes.append({"kind": "owner-discipline", "theorem": "c03_owner_discipline", "problem": p})
    ctx.cov["debug_build_only_advisory"] = info.get("debug_build_only", [])
    ctx.cov["owner_discipline_classes"] = {c: {"fields": d["fields"], "roles": {m: x["role"] for m, x in d["methods"].items()}}
                                            for c, d in info.get("owner_classes", {}).items()}
    ctx.cov["translator_sites"] = info["sites"]
    ctx.cov["translator_ignored_sites"] = info["ignored_sites"]
    ctx.cov["translator_no_touch_after_publish"] = info["no_touch_after_publish"]
    ctx.cov["lockset_classes"] = {c: {"fields": d["fields"], "methods": sorted(d["methods"])} for c, d in info["classes"].items()}


def gen(seed, tier):
    rng = random.Random(seed * 104729 + 303)
    per = 26 if tier == "quick" else 120
    lo, hi = (5, 45) if tier == "quick" else (20, 200)
    cases = []
    # a small malformed stream, rejected identically by model and harness
    cases.append(Case("tsan", "bad0", [[0, 5], [18, 5], [3]]))
    for sid in range(1, 18):
        ns = rng.sample(range(lo, hi), min(per, hi - lo))
        heavy = sid in (8, 9, 10, 11, 13, 15, 17)
        for k, n in enumerate(ns):
            if heavy:
                n = max(5, n // 4)
            ops = [[sid, n]]
            if k % 5 == 0:   # mixed case: two scenarios back to back
                ops.append([rng.randint(1, 7), rng.randint(5, 20)])
            cases.append(Case("tsan", "s%d_%d" % (sid, k), ops))
    return cases


def nontrivial(case, model_obs):
    return any(len(o) == 2 and 1 <= o[0] <= 17 and o[1] >= 5 for o in case.ops)


def signature(case, impl_obs, model_obs):
    """scenario that failed (the op after the last completed observation) + kind of failure"""
    last = impl_obs[-1] if impl_obs else ""
    abnormal = last.startswith("CRASH") or last == "HANG"
    done = len(impl_obs) - 1 if abnormal else len(impl_obs)
    if abnormal:
        sid = case.ops[done][0] if done < len(case.ops) and case.ops[done] else 0
        kind = last.split()[1] if last.startswith("CRASH") and len(last.split()) > 1 else last
        return "tsan:s%s:%s" % (sid, kind)
    bad = [case.ops[i][0] for i, l in enumerate(impl_obs) if i < len(case.ops) and case.ops[i] and l.strip() == "1"]
    return "tsan:s%s:integrity" % (bad[0] if bad else "?")


PART = {"name": "tsan", "harness": "tsan_c03.cpp", "gen": gen, "compiler": "clang++",
        "flags": "-O1 -g -DNDEBUG -fsanitize=thread -fno-omit-frame-pointer", "no_shrink": True, "timeout_case": 15}
PARTS = [PART]


def eval_obligations(ctx):
    """evaluate every generated side condition separately so that a broken obligation is named precisely"""
    src = ("From Coq Require Import List.\nFrom Cocls Require Import RADefs LocksetDefs.\nFrom Cocls.gen Require Import SyncGen.\n"
           "Eval vm_compute in (complete, P1.ok (P1.bits_of orders), P2.ok (P2.bits_future orders), P2.ok (P2.bits_signal orders),"
           " P2.ok (P2.bits_mutex orders), P3.ok (P3.bits_of orders), P4.ok (P4.bits_of orders), P5.ok (P5.bits_of orders),"
           " no_touch_after_publish_subcr, no_touch_after_publish_mutex_subscribe, all_guarded owner_skeletons, map class_ok skeletons).\n")
    path = os.path.join(ctx.tmp, "c03_eval.v")
    open(path, "w").write(src)
    rc, o, e = vlib.sh("timeout 120 coqc -Q %s Cocls %s" % (vlib.COQ, path), cwd=ctx.tmp, timeout=150)
    names = ["complete", "p1", "p2_future", "p2_signal", "p2_mutex", "p3", "p4", "p5", "touch_subcr", "touch_mutex", "owner"]
    vals = re.findall(r"\b(true|false)\b", o if rc == 0 else "")
    res = {}
    if rc != 0 or len(vals) < len(names):
        return None, (o + e)[-1500:]
    for n, v in zip(names, vals):
        res[n] = v == "true"
    res["lockset"] = all(v == "true" for v in vals[len(names):])
    return res, ""


def search(ctx, sids, factor):
    """try to obtain a concrete ThreadSanitizer report for a broken obligation: many more iterations of the matching scenarios"""
    ok, binary, msg = vlib.build_harness(PART["harness"], flags=PART["flags"], compiler=PART["compiler"])
    if not ok:
        return
    cases = [Case("tsan", "search_s%d_%d" % (sid, r), [[sid, 150 * factor]]) for sid in sids for r in range(3)]
    impl, diag = vlib.run_impl(binary, cases, ctx.tmp, timeout_case=30)
    for c in cases:
        i = impl.get(c.name, ["MISSING"])
        ctx.cov["evaluations"] += 1
        if i and (i[-1].startswith("CRASH") or i[-1] == "HANG" or i != ["0"]):
            ctx.failing.append({"case": c, "impl": i, "model": ["0"], "why": "crash" if i[-1].startswith("CRASH") else "oracle",
                                "part": PART, "agree": False, "diag": diag.get(c.name, "")})
            return


def extra(ctx):
    res, log = eval_obligations(ctx)
    ctx.cov["side_conditions"] = res
    if res is None:
        ctx.notes.append({"kind": "proof", "theorem": "c03 side conditions could not be evaluated", "log": log})
        return
    broken = [k for k, v in res.items() if not v]
    label = {"complete": "c03_translator_complete", "p1": "c03_p1_orders_ok", "p2_future": "c03_p2_future_orders_ok",
             "p2_signal": "c03_p2_signal_orders_ok", "p2_mutex": "c03_p2_mutex_orders_ok", "p3": "c03_p3_orders_ok", "p4": "c03_p4_orders_ok",
             "p5": "c03_p5_orders_ok", "touch_subcr": "c03_no_touch_after_publish", "touch_mutex": "c03_no_touch_after_publish",
             "lockset": "c03_guarded_state", "owner": "c03_owner_discipline"}
    if broken:
        # Properties_C03.v stops compiling at the first failing side condition, so every theorem is reported undischarged;
        # keep only the precise names (the side conditions evaluated one by one)
        ctx.notes[:] = [n for n in ctx.notes if n.get("kind") != "proof"]
    for b in broken:
        ctx.notes.append({"kind": "side-condition", "theorem": label.get(b, b), "obligation": b,
                          "orders": INFO.get("orders"), "problems": INFO.get("problems"), "guard_problems": INFO.get("guard_problems"),
                          "owner_problems": INFO.get("owner_problems")})
    if broken and not ctx.failing:
        sids = []
        for b in broken:
            key = {"touch_subcr": "touch", "touch_mutex": "touch"}.get(b, b)
            for s in OBLIGATION_SCENARIOS.get(key, []):
                if s not in sids:
                    sids.append(s)
        if sids:
            search(ctx, sids, 4 if ctx.tier == "quick" else 20)
