"""C12 — scheduler: never early, deadline order, each sleep completed exactly once, cancel hits exactly its target
(scheduler.h).  Engines: tm (manual mode, synthetic time points, array layout compared), tiv (interval() + stop token
under a watchdog), tst (start(awaitable) single thread, order of wake-ups), tth (worker thread idle, wake-up not missed)."""
import random
from vlib import Case

RULE = ("tm: histories of schedule/sleep_until/get_expired/remove/cancel/cancel(e)/~scheduler over a real cocls::scheduler in "
        "manual mode with synthetic integer time points (equal, past, negative), idents from a small pool incl. 0 and "
        "duplicates, cancels aimed at top / non-top / absent / already cancelled / already expired ids, get_expired at "
        "non-decreasing and occasionally decreasing `now`, heaps up to ~45 entries (sift paths of depth >= 4), every case "
        "closed by the destructor; plus EVERY history of length <= 3 (quick) / <= 5 (thorough; plus length 6 over a 7-letter sub-alphabet) over a 10-letter alphabet (2 idents x 2 time points, 3 clock readings, cancel/cancel(e)/remove) that starts with a schedule; plus a malformed stream. A tm case is non-trivial when the model reports at least one "
        "completion (expiry, remove or cancel = true) and the array reached >= 3 slots; tiv/tst/tth cases are non-trivial "
        "when they contain a stop request / >= 2 coroutines / any accepted op. distinct = distinct (engine, op list)")
SCOPE = ("scheduler::schedule, sleep_until, get_expired(_lk), remove, cancel(id[,e]), pop_item, ~scheduler with libstdc++ "
         "push_heap/pop_heap on the _scheduled array (layout compared slot by slot); worker_coro decision logic as a pure "
         "function + virtual clock (proved; sampled in thread mode and start(awaitable) mode); interval() stop callback "
         "lock ownership")
ASSUMPTIONS = [
    "promise ids (pids) are fresh per case; futures outlive the scheduler",
    "real time is only used by tst/tth: time points >= 10 ms apart unless exactly equal; the tth watchdog allows 2 s for a wake-up",
    "condition_variable / OS scheduling are not modelled beyond notify / timed wait / spurious wake-up events of the worker model",
]

IDS = [0, 1, 2, 3, 4, 5, 6, 7, 9, 11]


def close_case(c):
    if c.engine != "tm":
        return c
    ops = [o for o in c.ops]
    if not ops or ops[-1] != [7]:
        ops.append([7])
    return Case(c.engine, c.name, ops, c.meta)


def gen_tm(rng, name, nops, maxheap, tprange, idpool, p_sched):
    ops = []
    pid = 0
    now = tprange[0] - 5
    live = []          # (pid, id, tp) believed pending (approximate: the generator does not track which dup was hit)
    gone_ids = []      # ids of completed sleeps (for cancel-after-expiry / repeated cancel)
    for _ in range(nops):
        r = rng.random()
        if (r < p_sched and len(live) < maxheap and pid < 199) or not ops:
            idv = rng.choice(idpool)
            k = rng.random()
            if live and k < 0.25:
                tp = rng.choice(live)[2]                 # equal time point
            elif k < 0.35:
                tp = now - rng.randint(0, 30)            # past
            else:
                tp = rng.randint(*tprange)
            ops.append([rng.choice([1, 2]), pid, idv, tp])
            live.append((pid, idv, tp)); pid += 1
            continue
        r = rng.random()
        if r < 0.40:
            k = rng.random()
            if k < 0.75:
                now += rng.randint(0, max(1, (tprange[1] - tprange[0]) // 6))
                t = now
            elif k < 0.9 and live:
                t = rng.choice(live)[2] + rng.choice([-1, 0, 0, 1])   # exactly at / around a deadline
            else:
                t = now - rng.randint(1, 40)                          # clock reading going backwards
            ops.append([3, t])
            due = [x for x in live if x[2] <= t]
            if due:
                m = min(due, key=lambda x: x[2])
                live.remove(m); gone_ids.append(m[1])
        else:
            k = rng.random()
            if live and k < 0.25:
                idv = min(live, key=lambda x: x[2])[1]    # the top
            elif live and k < 0.60:
                idv = rng.choice(live)[1]                 # anywhere
            elif gone_ids and k < 0.85:
                idv = rng.choice(gone_ids)                # already cancelled / expired
            else:
                idv = rng.choice([8, 10, 12, 0])          # absent
            kind = rng.random()
            if kind < 0.2: ops.append([4, idv])
            elif kind < 0.7: ops.append([5, idv])
            else: ops.append([6, idv, rng.randint(1, 9)])
            hit = [x for x in live if x[1] == idv]
            if hit:
                live.remove(hit[0]); gone_ids.append(idv)
    return close_case(Case("tm", name, ops))


def boundary_tm():
    out = []
    def add(ops):
        out.append(close_case(Case("tm", "b%d" % len(out), ops)))
    # cancel non-top, expire top, cancel again (097b145)
    add([[1, 0, 1, 10], [1, 1, 2, 20], [5, 2], [3, 15], [5, 2], [5, 2], [3, 100]])
    add([[2, 0, 1, 10], [2, 1, 2, 20], [5, 2], [5, 1], [5, 2], [5, 1]])
    # duplicate ids, second cancel must hit the second sleep (7be01dc)
    add([[1, 0, 5, 10], [1, 1, 7, 20], [1, 2, 7, 30], [5, 7], [5, 7], [5, 7], [3, 100], [3, 100]])
    add([[1, 0, 5, 10], [1, 1, 7, 30], [1, 2, 7, 20], [1, 3, 7, 30], [6, 7, 4], [4, 7], [5, 7], [5, 7]])
    # empty scheduler
    add([[5, 1], [4, 0], [3, 5], [6, 2, 3]])
    # emptied entry surfacing at the top: later-than-necessary deadline is reported only after the emptied slot is popped
    add([[1, 0, 1, 10], [1, 1, 2, 20], [1, 2, 3, 30], [5, 2], [3, 5], [5, 1], [3, 5], [3, 25], [3, 35]])
    # ident 0 (nullptr) used by several sleeps
    add([[2, 0, 0, 5], [2, 1, 0, 5], [2, 2, 0, 1], [5, 0], [4, 0], [5, 0], [5, 0]])
    # equal time points only
    add([[1, i, i % 3, 7] for i in range(12)] + [[3, 7]] * 5 + [[5, 1], [5, 1], [3, 6], [3, 7]] + [[3, 8]] * 8)
    # past and negative time points
    add([[1, 0, 1, -50], [1, 1, 2, -100], [1, 2, 3, 0], [3, -75], [3, -75], [3, -1], [3, 0], [3, 0]])
    # destructor with pending and emptied entries, ops after it
    add([[1, 0, 1, 10], [1, 1, 2, 20], [1, 2, 3, 30], [5, 3], [7], [5, 1], [1, 5, 1, 1], [3, 100]])
    # deep heaps: ascending / descending / organ-pipe insertion, then drain
    for order in ("asc", "desc", "mix"):
        n = 40
        tps = list(range(n))
        if order == "desc": tps.reverse()
        if order == "mix": tps = [(i * 17) % n for i in range(n)]
        ops = [[1, i, i % 7, tps[i]] for i in range(n)]
        ops += [[5, 3], [5, 3], [4, 6]]
        ops += [[3, t] for t in range(0, n + 3, 1)]
        add(ops)
    return out


def exhaustive_tm(maxlen, small=False):
    """every history of length <= maxlen over a 10-letter alphabet that starts with a schedule: two idents, two time points
    (so equal deadlines, duplicate idents, past deadlines, cancel-after-expiry, repeated cancel, cancel of top / non-top /
    emptied all occur), three clock readings, cancel / remove; each closed by the destructor"""
    import itertools
    alpha = [("s", 1, 1), ("s", 1, 2), ("s", 2, 1), ("s", 2, 2), ("e", 0), ("e", 1), ("e", 2), ("c", 1), ("c", 2), ("r", 1)]
    if small:   # 7 letters, only words of exactly maxlen
        alpha = [("s", 1, 1), ("s", 1, 2), ("s", 2, 2), ("e", 1), ("e", 2), ("c", 1), ("c", 2)]
    out = []
    for n in range(maxlen if small else 1, maxlen + 1):
        for w in itertools.product(range(len(alpha)), repeat=n):
            if alpha[w[0]][0] != "s":
                continue
            ops = []; pid = 0
            for k in w:
                a = alpha[k]
                if a[0] == "s":
                    ops.append([1 + (pid & 1), pid, a[1], a[2]]); pid += 1
                elif a[0] == "e": ops.append([3, a[1]])
                elif a[0] == "c": ops.append([5 if (len(ops) & 1) else 6, a[1]] + ([] if (len(ops) & 1) else [2]))
                else: ops.append([4, a[1]])
            out.append(close_case(Case("tm", "%s%d_%s" % ("y" if small else "x", n, "".join("%x" % k for k in w)), ops)))
    return out


def malformed_tm(rng, k):
    out = []
    pool = [[1, 0, 1], [1, -1, 1, 5], [1, 200, 1, 5], [1, 0, -1, 5], [2, 0, 1, 5, 6], [3], [3, 1, 2], [4, -2], [5], [6, 1, 0],
            [6, 1, 1001], [7, 1], [8], [0], [9, 9, 9], [6, 1]]
    for i in range(k):
        ops = []
        for _ in range(rng.randint(3, 9)):
            if rng.random() < 0.5: ops.append(list(rng.choice(pool)))
            else: ops.append(rng.choice([[1, rng.randint(0, 3), 1, 5], [3, 7], [5, 1], [7]]))
        out.append(close_case(Case("tm", "m%d" % i, ops)))
    return out


def gen_tiv(rng, n):
    """interval generators g = 0..2 on one scheduler, independent stop tokens; op [c] = [c, 0]; c: 1 create, 2 call,
    3 request_stop, 4 get_expired(far future)"""
    fixed = [[1, 2, 3, 4], [1, 2, 4, 2, 4, 3, 2], [1, 3, 2, 4], [1, 2, 3, 3, 4, 2], [2, 3, 1, 2, 3], [1, 1, 2, 2, 3, 4, 4],
             [1, 2, 4, 3, 4, 2], [3], [1, 2, 4, 2, 3, 4, 2], [1, 2, 5, 3]]
    out = [Case("tiv", "iv%d" % i, [[x] for x in f]) for i, f in enumerate(fixed)]
    multi = [
        # two generators asleep, stop one: only that one ends, the other keeps ticking
        [[1, 0], [1, 1], [2, 0], [2, 1], [3, 0], [4], [2, 1], [4], [2, 0]],
        [[1, 0], [1, 1], [2, 0], [2, 1], [3, 1], [4], [2, 0], [3, 0], [2, 1]],
        # the later sleeper is stopped (its entry is not at the top: emptied in place), the earlier one expires normally
        [[1, 0], [1, 1], [2, 1], [2, 0], [3, 0], [4], [4], [2, 1], [3, 1]],
        # three generators, stop the middle one, then the first, the third keeps ticking
        [[1, 0], [1, 1], [1, 2], [2, 0], [2, 1], [2, 2], [3, 1], [3, 0], [4], [2, 2], [4], [2, 2], [3, 2]],
        # stop before the first call, with another generator asleep
        [[1, 0], [1, 1], [2, 1], [3, 0], [2, 0], [4], [2, 1]],
        # stop while yielded, other asleep
        [[1, 0], [1, 1], [2, 0], [4], [2, 1], [3, 0], [2, 0], [4], [2, 1]],
        [[1, 3], [2, -1], [1, 0, 0], [5, 0], [1, 2], [2, 2], [3, 2]],
    ]
    out += [Case("tiv", "ivm%d" % i, f) for i, f in enumerate(multi)]
    for i in range(n):
        if i % 3 == 0:
            ops = [[1]] + [[rng.choice([2, 2, 3, 4, 4, 1])] for _ in range(rng.randint(1, 7))]
        else:
            k = rng.choice([2, 3])
            ops = [[1, g] for g in range(k)]
            for _ in range(rng.randint(3, 12)):
                c = rng.choice([2, 2, 2, 3, 4, 4])
                ops.append([4] if c == 4 and rng.random() < 0.5 else [c, rng.randrange(k)])
        out.append(Case("tiv", "ivr%d" % i, ops))
    return out


def gen_tx(rng, n):
    """manual mode with callback sleepers whose handler re-enters the scheduler, and sleep_for with sub-millisecond parts"""
    out = []
    fixed = [
        # main timer: when cancelled, cancels the dependent timer and re-arms itself; then the calls of a teardown
        [[8, 0, 2, 100, 0, 0, 0, 0, 9], [8, 1, 1, 50, 3, 2, 1, 200, 2], [5, 1], [5, 2], [5, 1], [5, 1], [3, 1000]],
        # chain: A cancels B, B cancels C, C arms D
        [[8, 0, 1, 10, 1, 2, 0, 0, 9], [8, 1, 2, 20, 1, 3, 0, 0, 9], [8, 2, 3, 30, 2, 0, 4, 40, 3], [6, 1, 5], [3, 100], [3, 100]],
        # expiry path: the handler runs in the caller of get_expired and re-arms / cancels
        [[8, 0, 1, 10, 3, 2, 1, 5, 2], [1, 1, 2, 20], [3, 15], [3, 15], [3, 15], [5, 1]],
        # remove + resolve by the caller
        [[8, 0, 1, 10, 1, 1, 0, 0, 9], [8, 1, 1, 20, 2, 0, 1, 30, 2], [4, 1], [4, 1], [4, 1], [4, 1]],
        # a handler cancelling its own (already taken) id, and an absent id
        [[8, 0, 1, 10, 1, 1, 0, 0, 9], [8, 1, 2, 20, 1, 7, 0, 0, 9], [5, 1], [5, 2], [5, 1]],
        # sleep_for with durations that are not whole milliseconds: 999 us, 2999 us, 750000 ns, 1 and 3 quarter-ms, whole ms
        [[9, 0, 1, 1, 999], [9, 1, 2, 1, 2999], [9, 2, 3, 0, 750000], [9, 3, 4, 3, 1], [9, 4, 5, 3, 3], [9, 5, 6, 2, 7], [9, 6, 7, 0, 1],
         [3, 50], [5, 2], [5, 2], [6, 1, 4], [5, 4]],
        [[9, 0, 1, 0, 999999], [1, 1, 1, 5], [3, 10], [5, 1], [5, 1]],
        # malformed
        [[8, 0, 1, 10, 4, 0, 0, 0, 9], [8, 0, 1, 10, 1, 0, 0, 0, 0], [9, 0, 1, 4, 5], [9, 0, 1, 0, 1000000], [1, 0, 1], [3, 2000000000000000], [7]],
    ]
    out += [Case("tx", "x%d" % i, f) for i, f in enumerate(fixed)]
    for i in range(n):
        ops = []; pid = 0; ids = [1, 2, 3, 4]
        for _ in range(rng.randint(4, 14)):
            r = rng.random()
            if r < 0.30 and pid < 150:
                ops.append([8, pid, rng.choice(ids), rng.randint(0, 60), rng.randint(0, 3), rng.choice(ids), rng.choice(ids),
                            rng.randint(0, 80), pid + 50 + rng.randint(0, 3)]); pid += 1
            elif r < 0.42 and pid < 150:
                ops.append([1, pid, rng.choice(ids), rng.randint(0, 60)]); pid += 1
            elif r < 0.52 and pid < 150:
                k = rng.choice([0, 1, 1, 2, 3])
                frac = rng.choice([1, 250, 499, 500, 999, 2999, 750000, 999999, 0]) if k < 2 else rng.randint(0, 7)
                ops.append([9, pid, rng.choice(ids), k, frac]); pid += 1
            elif r < 0.70:
                ops.append([3, rng.randint(0, 90)])
            elif r < 0.78:
                ops.append([4, rng.choice(ids)])
            elif r < 0.93:
                ops.append([5, rng.choice(ids)])
            else:
                ops.append([6, rng.choice(ids), rng.randint(1, 9)])
        out.append(Case("tx", "xr%d" % i, ops))
    return out


def gen_tst(rng, n):
    out = []
    fixed = [[[1, 10, 50], [1, 30, 40], [1, 30]], [[1, 20], [1, 20], [1, 20]], [[1, 0, 0, 30], [1, 0, 30]],
             [[1, 40, 50, 60], [1, 10, 20, 30]]]
    for i, f in enumerate(fixed):
        out.append(Case("tst", "st%d" % i, f))
    for i in range(n):
        k = rng.randint(2, 4)
        ops = []
        for _ in range(k):
            t = 0; offs = []
            for _ in range(rng.randint(1, 3)):
                t += rng.choice([0, 10, 20, 30])
                offs.append(t)
            ops.append([1] + offs)
        out.append(Case("tst", "str%d" % i, ops))
    out.append(Case("tst", "stbad", [[1, 10], [2, 5]]))
    out.append(Case("tst", "stback", [[1, 10, 50], [1, 40, 20]]))    # rejected: goes backwards
    return out


def gen_tth(rng, n):
    ops = [[1, 0, 20], [1, 30000, 20], [1, 10, 40]]
    for _ in range(n):
        ops.append([1, rng.choice([0, 0, 20000, 60000, 5]), rng.choice([10, 25, 40])])
    race = [Case("tth", "thr0", [[2, 0]]), Case("tth", "thr1", [[2, 30000]]), Case("tth", "thr2", [[2, 0], [2, 60000], [2, 5]])]
    # the same scenarios with the scheduler started in a thread_pool (worker_coro<true>)
    race += [Case("tth", "thp0", [[3, 0, 20], [3, 30000, 20], [3, 10, 40]]), Case("tth", "thp1", [[4, 0]]), Case("tth", "thp2", [[4, 30000]]),
             Case("tth", "thp3", [[3, rng.choice([0, 20000, 5]), rng.choice([10, 25, 40])] for _ in range(max(2, n))] + [[4, 60000], [4, 7], [3, 5]])]
    # cancel while the worker is blocked on the first deadline (thread and pool flavour): the stale deadline must not
    # complete a later sleeper early; fixed: cancel the top / a middle one / all but the last; random mixes
    cb = [[5, 0, 1, 200, 650], [5, 1, 1, 200, 650], [5, 0, 2, 200, 400, 600], [5, 1, 5, 250, 450, 700], [5, 0, 3, 200, 400, 650]]
    for _ in range(max(2, n)):
        k = rng.randint(2, 4)
        offs = []; t = 0
        for _ in range(k):
            t += rng.choice([200, 250, 300]); offs.append(t)
        if t > 1000: offs = [200 * (i + 1) for i in range(k)]
        cb.append([5, rng.choice([0, 1]), rng.randint(0, (1 << k) - 1)] + offs)
    cb.append([5, 0, 1, 100, 400]); cb.append([5, 2, 1, 200, 400]); cb.append([5, 0, 4, 200, 400])     # rejected
    race += [Case("tth", "thc%d" % i, [o]) for i, o in enumerate(cb)]
    return [Case("tth", "th0", ops[:3]), Case("tth", "th1", ops[3:] + [[1, 5]])] + race


def gen(seed, tier):
    rng = random.Random(seed * 104729 + 12)
    quick = tier == "quick"
    cases = boundary_tm()
    cases += exhaustive_tm(3 if quick else 5)
    if not quick:
        cases += exhaustive_tm(6, small=True)
    n = 330 if quick else 3000
    for i in range(n):
        shape = rng.random()
        if shape < 0.15:
            c = gen_tm(rng, "g%d" % i, rng.randint(60, 110), 45, (0, 60), IDS, 0.62)            # deep heaps
        elif shape < 0.40:
            c = gen_tm(rng, "g%d" % i, rng.randint(15, 45), 12, (0, 12), [0, 1, 2, 3], 0.45)     # many ties + dup ids
        elif shape < 0.55:
            c = gen_tm(rng, "g%d" % i, rng.randint(10, 40), 8, (-20, 20), [0, 1, 2], 0.40)       # cancel-heavy, tiny pool
        else:
            c = gen_tm(rng, "g%d" % i, rng.randint(8, 60), 25, (0, 200), IDS, 0.5)
        cases.append(c)
    cases += malformed_tm(rng, 12 if quick else 100)
    cases += gen_tiv(rng, 60 if quick else 600)
    cases += gen_tx(rng, 60 if quick else 800)
    cases += gen_tst(rng, 8 if quick else 60)
    cases += gen_tth(rng, 3 if quick else 20)
    return cases


def nontrivial(case, model_obs):
    if case.engine == "tm":
        done = 0; big = 0
        for l in model_obs:
            a = l.split()
            if len(a) >= 5 and a[0] == "0":
                if a[1] == "1": done += 1
                k = int(a[3])
                if len(a) > 4 + 2 * k and int(a[4 + 2 * k]) >= 3: big = 1
        return done > 0 and big > 0
    if case.engine == "tx":
        return any(o and o[0] in (8, 9) for o in case.ops) and any(l.split()[:2] == ["0", "1"] for l in model_obs if l)
    if case.engine == "tiv":
        return any(o and o[0] == 3 for o in case.ops) and any(o and o[0] == 2 for o in case.ops)
    if case.engine == "tst":
        return len(case.ops) >= 2 and any(l.split()[0] == "0" for l in model_obs if l)
    return any(l.split()[0] == "0" for l in model_obs if l)


def _api_part(line):
    """tm observation without the array dump: st r1 r2 k (pid code)*k | n (tp pid id)*n  ->  the part before n"""
    a = line.split()
    if len(a) >= 4 and a[0] == "0":
        try:
            return a[:4 + 2 * int(a[3])]
        except ValueError:
            return a
    return a


def obs_equal(case, model_obs, impl_obs):
    """correspondence on API-visible observables: results, which futures changed and how.  The _scheduled array
    (layout, number of lingering emptied slots) is a diagnostic: it is judged by the oracle (heap order + live
    entries = pending multiset), not compared with the model's array."""
    if case.engine != "tm":
        return model_obs == impl_obs
    return len(model_obs) == len(impl_obs) and all(_api_part(m) == _api_part(i) for m, i in zip(model_obs, impl_obs))


def signature(case, impl_obs, model_obs):
    last = impl_obs[-1] if impl_obs else ""
    if last.startswith("CRASH"):
        kind = last.split()[1] if len(last.split()) > 1 else "crash"
        if len(impl_obs) >= 2 and impl_obs[-2].strip() in ("-998", "-997"):
            kind = "HANGSELF" if impl_obs[-2].strip() == "-998" else "HANGSTART"
    elif last == "HANG":
        kind = "HANG"
    else:
        kind = "oracle"
    return "%s:%s" % (case.engine, kind)


PARTS = [{"name": "seq_timer", "harness": "seq_timer.cpp", "gen": gen, "timeout_case": 8}]
