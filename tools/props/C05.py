"""C05 — coroutine-mode scheduling: run-to-suspension, FIFO ready queue, full drain (coro_queue.h, suspend_point.h, async.h)."""
import itertools, random
from vlib import Case
from props.vmcommon import close_case, gen_random, lenient_ok, events

RULE = ("scripted-coroutine programs (2-8 coroutines x 1-12 steps over spawn in every start mode, pause, promise resolution with "
        "discarded/awaited suspend point, future await, emit, return/throw) run from normal code, plus boundary programs (waker "
        "never suspends, nested start depth 5, pause with empty queue, many waiters on one future) and a malformed stream; every "
        "program is closed by resolving all futures; a case is non-trivial when the model trace has >= 1 ready-queue enqueue and "
        ">= 3 coroutine activations; distinct = distinct program text")
SCOPE = ("coro_queue (resume/install_queue_and_call/flush_queue/pause), suspend_point destructor/await_suspend, async start modes and "
         "final_awaiter, co_awaiter<future> — single thread; ready-queue pushes/pops observed through q_enq/q_deq hooks")
ASSUMPTIONS = ["single thread; no mutex/queue/generator steps yet (their components add instructions to the same VM)",
               "a co_awaited suspend point never contains the awaiting coroutine itself (true for every instruction of the vocabulary)"]

L = lambda *a: list(a)


def boundary():
    out = []
    # waker never suspends: it queues k waiters through discarded suspend points, emits, finishes
    for k in (1, 2, 3, 4, 7):
        ops = [L(0, 9, 0)] + [L(0, 5, 2 + i, 0) for i in range(k)] + [L(0, 5, 1, 0)]
        for i in range(k):
            ops += [L(2 + i, 11, 0), L(2 + i, 1, 20 + i)]
        ops += [L(1, 10, 0, 0, 5, 0), L(1, 1, 10), L(1, 1, 11)]
        out.append(ops)
        # same but the waker awaits the suspend point
        ops2 = [o[:] for o in ops if o[:2] != [1, 10]] + [L(1, 10, 0, 0, 5, 1), L(1, 1, 12)]
        out.append(ops2)
    # nested start depth 5, the innermost pauses
    ops = [L(0, 5, 1, 0)]
    for d in range(1, 6):
        ops += [L(d, 1, d), L(d, 6, d + 1, 10 + d), L(d, 1, 100 + d), L(d, 11, 10 + d)]
    ops += [L(6, 2), L(6, 1, 6)]
    out.append(ops)
    # pause with empty queue, pause ping-pong of three
    out.append([L(0, 5, 1, 0), L(1, 2), L(1, 2), L(1, 1, 1)])
    out.append([L(0, 5, 1, 0), L(1, 5, 2, 0), L(1, 5, 3, 0)] + [L(c, 2) for c in (1, 2, 3) for _ in range(4)] + [L(c, 1, c) for c in (1, 2, 3)])
    # nested start whose child yields while the caller has queued somebody (the known deviation from the property text)
    out.append([L(0, 9, 0), L(0, 5, 2, 0), L(0, 5, 1, 0), L(2, 11, 0), L(2, 1, 200), L(1, 10, 0, 0, 1, 0), L(1, 6, 3, 1), L(1, 1, 101), L(3, 2), L(3, 1, 300)])
    # co_await chain depth 6 ending in a throw
    ops = [L(0, 6, 1, 9)]
    for d in range(1, 7):
        ops += [L(d, 8, d + 1), L(d, 1, d)]
    ops += [L(7, 13, 77)]
    out.append(ops)
    # finished coroutine with three waiters on its future (final_awaiter: last by transfer, others queued)
    out.append([L(0, 9, 0), L(0, 7, 1, 0, 0), L(1, 11, 1), L(0, 9, 1), L(0, 5, 2, 0), L(0, 5, 3, 0), L(0, 5, 4, 0), L(2, 11, 0), L(3, 11, 0), L(4, 11, 0),
                L(2, 1, 2), L(3, 1, 3), L(4, 1, 4), L(0, 10, 1, 0, 1, 0)])
    return [close_case(Case("vm5", "b%d" % i, o)) for i, o in enumerate(out)]


VOCAB = [L(1, 7), L(2), L(5, 9, 0), L(5, 9, 1), L(6, 9, 5), L(8, 9), L(10, 0, 0, 3, 0), L(10, 0, 0, 3, 1), L(11, 0), L(7, 9, 1, 0)]


def exhaustive(nsteps):
    """all programs of two coroutines x nsteps steps over VOCAB (child 9 = a fixed small waiter), started by normal code"""
    out = []
    child = [L(9, 11, 0), L(9, 1, 90)]
    i = 0
    for s1 in itertools.product(VOCAB, repeat=nsteps):
        for s2 in itertools.product(VOCAB, repeat=nsteps):
            if sum(1 for x in s1 + s2 if x[0] in (5, 6, 7, 8)) > 1:
                continue   # coroutine 9 can be started once
            ops = [L(0, 9, 0), L(0, 9, 1), L(0, 5, 1, 0), L(0, 5, 2, 0)] + [[1] + x for x in s1] + [[2] + x for x in s2] + child
            out.append(close_case(Case("vm5", "x%d" % i, ops))); i += 1
    return out


def gen(seed, tier):
    rng = random.Random(seed * 6007 + 5)
    cases = boundary()
    n = 500 if tier == "quick" else 5000
    for i in range(n):
        shape = rng.random()
        if shape < 0.2:
            w = {"pause": 0.35, "spawn": 0.3, "resolve": 0.1, "await": 0.1}       # round-robin heavy
        elif shape < 0.4:
            w = {"resolve": 0.3, "await": 0.3, "spawn": 0.25, "pause": 0.05, "aw": 0.5}   # wake-up heavy
        elif shape < 0.5:
            w = {"modes": ["start"], "spawn": 0.4, "pause": 0.25}                   # nested starts
        else:
            w = None
        cases.append(gen_random(rng, "vm5", "g%d" % i, w))
    if tier != "quick":
        cases += exhaustive(2)
    else:
        ex = exhaustive(1)
        cases += ex
    return cases


def gen_sapi(seed, tier):
    """direct ready-queue API scenarios (engine sapi): throwing callbacks under install_queue_and_call / create_suspend_point,
    suspend points merged by assignment"""
    rng = random.Random(seed * 577 + 55)
    cases = []
    i = 0
    for op in (1, 2):
        for n in (0, 1, 2, 3, 4, 7, 12):
            cases.append(Case("sapi", "t%d" % i, [L(op, n, 0), L(op, n, 1), L(op, n, 0)])); i += 1
    for n1 in (0, 1, 2, 4):
        for n2 in (0, 1, 3, 5):
            cases.append(Case("sapi", "m%d" % i, [L(3, n1, n2, 0), L(3, n1, n2, 1)])); i += 1
    cases.append(Case("sapi", "q%d" % i, [L(4, n) for n in (0, 1, 2, 5, 8, 0)])); i += 1
    cases.append(Case("sapi", "s%d" % i, [L(5, n) for n in (0, 1, 2, 3, 4, 8)])); i += 1
    cases.append(Case("sapi", "c%d" % i, [L(6, n) for n in (0, 1, 2, 3, 8)])); i += 1
    for _ in range(15 if tier == "quick" else 150):
        ops = []
        for _ in range(rng.randint(2, 8)):
            k = rng.choice([1, 2, 3, 4, 5, 6])
            if k >= 4: ops.append(L(k, rng.randint(0, 8)))
            else: ops.append(L(k, rng.randint(0, 12), rng.randint(0, 1)) if k < 3 else L(3, rng.randint(0, 8), rng.randint(0, 8), rng.randint(0, 1)))
        if rng.random() < 0.2: ops.insert(rng.randrange(len(ops) + 1), rng.choice([L(1, 13, 0), L(3, 1, 9, 0), L(4), L(2, 1, 2)]))
        cases.append(Case("sapi", "r%d" % i, ops)); i += 1
    return cases


def nontrivial(case, model_obs):
    if case.engine == "sapi":
        return any(len(l.split()) > 5 for l in model_obs)
    return len(events(model_obs, 5)) >= 1 and len(events(model_obs, 1)) >= 3


def signature(case, impl_obs, model_obs):
    last = impl_obs[-1] if impl_obs else ""
    if case.engine == "sapi":
        if last.startswith("CRASH"):
            return "sapi:" + (last.split()[1] if len(last.split()) > 1 else "crash")
        return "sapi:" + (last if last in ("HANG", "MISSING") else "oracle")
    if last.startswith("CRASH"):
        return "vm5:" + (last.split()[1] if len(last.split()) > 1 else "crash")
    if last in ("HANG", "MISSING"):
        return "vm5:" + last
    try:
        if lenient_ok(case, impl_obs):
            return "vm5:nested-start-preempt"
    except Exception:
        pass
    return "vm5:oracle"


PARTS = [{"name": "vm", "harness": "vm.cpp", "gen": gen, "timeout_case": 10},
         {"name": "sapi", "harness": "seq_sched.cpp", "gen": gen_sapi, "timeout_case": 10}]
