"""C10 — bounded queue: back-pressure without losing or duplicating items (queue.h: limited_queue<T>)."""
from props import queuecommon as qc

RULE = ("item types int, unique_ptr<int> (move-only) and a move-observable struct, pushed as rvalues; seq: limits 1,2,3,4,7,16; aimed histories around size = limit-1, limit, limit+k with 1-4 blocked producers (pop completing exactly "
        "the oldest blocked push, unblock_push withdrawing the oldest blocked item, waiting consumers first, destruction with blocked "
        "producers / waiting consumers, oscillation around the limit, refill after drain) + random + malformed histories; ctl: 1-3 producer, "
        "1-3 consumer and an unblock_push thread on limited_queue<int> with limit 1-4 under controlled schedules; thorough adds every history "
        "of length <= 7 for limits 1..3 and every schedule prefix of length 7 for small thread sets. non-trivial (seq) = at least one push "
        "future was returned pending; (ctl) = at least 3 thread switches; distinct = distinct (engine, op list)")
SCOPE = ("limited_queue<T>::push/pop/unblock_push/size/empty/~limited_queue and the protected base's unblock_pop (through a derived class); "
         "push futures and pop futures observed through ready()/value()")
ASSUMPTIONS = ["limit >= 1 (a limited_queue with limit 0 can never accept an item; the generator's malformed stream still constructs it)",
               "the queue object is destroyed only when no operation on it is in progress",
               "ctl: interleaving at the granularity of critical sections plus the unlock->resolve gap"]


def gen_seq(seed, tier):
    return qc.gen_c10_seq(seed, tier)


def gen_ctl(seed, tier):
    return qc.gen_ctl(seed, tier, "tlq")


def nontrivial(case, model_obs):
    if case.engine.startswith("t"):
        return qc.ctl_nontrivial(case, model_obs)
    for l in model_obs:
        a = qc.parse(l)
        if not a or a[0] != 0 or len(a) < 5:
            continue
        f = a[5 + 4 * a[4]:]
        for j in range(0, len(f) - 3, 4):
            if f[j + 2] == -2:
                return True
    return False


signature = qc.signature
PARTS = [{"name": "seq_queue", "harness": "seq_queue.cpp", "gen": gen_seq, "timeout_case": 6},
         {"name": "ctl_queue", "harness": "ctl_queue.cpp", "gen": gen_ctl, "timeout_case": 5}]
