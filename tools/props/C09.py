"""C09 — awaitable queue: each item delivered exactly once, in order (queue.h: queue<T>, queue<void>)."""
from props import queuecommon as qc

RULE = ("seq: aimed + random + malformed histories over push/pop/unblock_pop/size/empty/destroy for queue<int> driven from plain code (q), "
        "from coroutines awaiting the pop (qc), with move-only items (qm, unique_ptr), queue<void> (qv), and the two-phase engine q2 "
        "(push split at the unlock by a gate inside the item constructor, several pushes in flight); ctl: 1-3 producer, 1-3 consumer and an "
        "unblock_pop thread under controlled schedules (yield before every lock acquisition and between unlock and promise resolution); "
        "thorough adds every history of length <= 6 and every schedule prefix of length 7 for small thread sets. non-trivial (seq) = a parked "
        "pop is completed later (by push / unblock_pop / destroy) or at least two values are delivered; (ctl) = at least 3 thread switches; "
        "distinct = distinct (engine, op list)")
SCOPE = ("queue<T>::push/pop/unblock_pop/size/empty/~queue, primitives::std_queue<void>; futures returned by pop observed through "
         "ready()/value()/co_await")
ASSUMPTIONS = ["the queue object is destroyed only when no operation on it is in progress (C++ object lifetime)",
               "ctl: interleaving at the granularity of critical sections plus the unlock->resolve gap; the promise/future cell itself is C01/C02's subject",
               "items are integers (or unique_ptr<int>); an item type whose move constructor throws is out of scope"]


def gen_seq(seed, tier):
    return qc.gen_c09_seq(seed, tier)


def gen_ctl(seed, tier):
    return qc.gen_ctl(seed, tier, "tq")


def nontrivial(case, model_obs):
    if case.engine.startswith("t"):
        return qc.ctl_nontrivial(case, model_obs)
    parked, completed, values = set(), 0, 0
    for l in model_obs:
        a = qc.parse(l)
        if not a or a[0] != 0:
            continue
        f = a[4:]
        for j in range(0, len(f) - 3, 4):
            fid, ready, kind = f[j], f[j + 1], f[j + 2]
            if kind == -2:
                parked.add(fid)
            else:
                if fid in parked:
                    completed += 1
                    parked.discard(fid)
                if kind == 0:
                    values += 1
    return completed >= 1 or values >= 2


signature = qc.signature
PARTS = [{"name": "seq_queue", "harness": "seq_queue.cpp", "gen": gen_seq, "timeout_case": 6},
         {"name": "ctl_queue", "harness": "ctl_queue.cpp", "gen": gen_ctl, "timeout_case": 5}]
