"""shared generator for the coroutine-mutex scenarios (C07, C08): engine mx, harness ctl_mutex.cpp"""
import itertools, random
from vlib import Case


def mk(name, contenders, sched):
    ops = [[1, k] + [x for r in rounds for x in r] for (k, rounds) in contenders] + [[9] + list(sched)]
    return Case("mx", name, ops)


def rand_sched(rng, L, width):
    style = rng.random()
    if style < 0.45:
        return [rng.randint(0, width) for _ in range(L)]
    if style < 0.75:   # bursts: one thread runs for a while (opens the publish/inspect and unlock/arrive windows)
        s = []
        while len(s) < L:
            s += [rng.randint(0, width)] * rng.randint(1, 6)
        return s[:L]
    if style < 0.9:    # mostly highest enabled thread first
        return [rng.choice([width, width, width - 1 if width else 0, 0]) for _ in range(L)]
    # sparse: lowest thread runs, a few single steps of others
    s = [0] * L
    for _ in range(rng.randint(1, 5)):
        if L: s[rng.randrange(L)] = rng.randint(1, width) if width else 0
    return s


def rand_contender(rng, focus, maxr):
    kind = rng.choice([0, 0, 0, 1]) if focus == "fifo" else rng.choice([0, 0, 1])
    nr = rng.randint(1, maxr)
    rounds = []
    for _ in range(nr):
        if focus == "fifo":
            a = rng.choice([0, 0, 0, 0, 1]); r = rng.choice([0, 1, 2, 2])
        else:
            a = rng.choice([0, 0, 0, 1]); r = rng.choice([0, 1, 2])
        rounds.append((a, r))
    return (kind, rounds)


def gen(seed, tier, focus):
    rng = random.Random(seed * 1000003 + (707 if focus == "mutex" else 808))
    n = 450 if tier == "quick" else 5000
    cases = []
    for i in range(n):
        nc = rng.choice([2, 2, 3, 3, 4]) if focus == "mutex" else rng.choice([2, 3, 3, 4, 4])
        maxr = 3 if nc <= 3 else 2
        cont = [rand_contender(rng, focus, maxr) for _ in range(nc)]
        L = rng.choice([0, 10, 20, 40, 60, 90])
        cases.append(mk("%s%d" % (focus[0], i), cont, rand_sched(rng, L, nc)))
    # malformed / degenerate stream: rejected declarations, no rounds, single contender
    bad = [[[1, 2, 0, 0]], [[1, 0, 0]], [[1, 0, 2, 0]], [[1, 0, 0, 3]], [[1]], [[2, 0, 0, 0]], [[1, 0]], [[1, 1]],
           [[1, 0, 0, 0]], [[1, 1, 1, 1]]]
    for j, b in enumerate(bad):
        ops = b + [[1, 0, 0, 2], [1, 1, 0, 0]] + [[9] + [rng.randint(0, 3) for _ in range(12)]]
        cases.append(Case("mx", "%sbad%d" % (focus[0], j), ops))
    if tier != "quick":
        # systematic: every schedule prefix of length 13 over 2 choices (2 contenders x 2 rounds) and
        # of length 9 over 3 choices (3 contenders x 1 round), then lowest-thread-first
        cfg2 = [[(0, [(0, 0), (0, 2)]), (0, [(0, 1), (0, 0)])],
                [(0, [(0, 2), (0, 2)]), (1, [(0, 0), (0, 1)])],
                [(1, [(0, 0), (0, 0)]), (1, [(0, 1), (1, 0)])],
                [(0, [(0, 0), (1, 1)]), (0, [(0, 2), (0, 2)])]]
        cfg3 = [[(0, [(0, 0)]), (0, [(0, 2)]), (0, [(0, 1)])],
                [(0, [(0, 2)]), (1, [(0, 0)]), (0, [(0, 2)])],
                [(1, [(0, 0)]), (1, [(0, 1)]), (0, [(1, 0)])]]
        j = 0
        for cont in cfg2:
            for pre in itertools.product(range(2), repeat=13):
                cases.append(mk("%sx%d" % (focus[0], j), cont, pre)); j += 1
        for cont in cfg3:
            for pre in itertools.product(range(3), repeat=9):
                cases.append(mk("%sx%d" % (focus[0], j), cont, pre)); j += 1
        # two single-step preemptions at every pair of positions of a long lowest-first run
        for cont in cfg2[:2] + cfg3[:2]:
            for a in range(0, 34):
                for b in range(a, 34):
                    s = [0] * 34; s[a] = 1; s[b] = 1
                    cases.append(mk("%sx%d" % (focus[0], j), cont, s)); j += 1
    return cases


def nontrivial(case, model_obs):
    # at least two contenders, and at least 3 switches of OS thread in the executed trace
    tids = [l.split()[0] for l in model_obs if len(l.split()) == 3 and l.split()[0] != "777"]
    switches = sum(1 for a, b in zip(tids, tids[1:]) if a != b)
    return switches >= 3


def signature(case, impl_obs, model_obs):
    last = impl_obs[-1] if impl_obs else ""
    if last.startswith("CRASH"):
        return "mutex:" + last.split()[1]
    if last == "HANG":
        return "mutex:HANG"
    if any(l.startswith("777") for l in impl_obs):
        return "mutex:deadlock"
    for l in impl_obs:
        a = l.split()
        if len(a) == 4 and a[0] == "8" and a[1] != "0":
            return "mutex:overlap"
    return "mutex:oracle"
