"""shared generator for the coroutine-mutex scenarios (C07, C08): engine mx, harness ctl_mutex.cpp"""
import itertools, random
from vlib import Case


def mk(name, contenders, sched):
    ops = [[1, k] + [x for r in rounds for x in r] for (k, rounds) in contenders] + [[9] + list(sched)]
    return Case("mx", name, ops)


def rand_sched(rng, L, width):
    style = rng.random()
    if style < 0.45:
        return [rng.randint(0, width) for _ in range(L)]
    if style < 0.75:   # bursts: one thread runs for a while (opens the publish/inspect and unlock/arrive windows)
        s = []
        while len(s) < L:
            s += [rng.randint(0, width)] * rng.randint(1, 6)
        return s[:L]
    if style < 0.9:    # mostly highest enabled thread first
        return [rng.choice([width, width, width - 1 if width else 0, 0]) for _ in range(L)]
    # sparse: lowest thread runs, a few single steps of others
    s = [0] * L
    for _ in range(rng.randint(1, 5)):
        if L: s[rng.randrange(L)] = rng.randint(1, width) if width else 0
    return s


def rand_contender(rng, focus, maxr):
    kind = rng.choice([0, 0, 0, 1, 2]) if focus == "fifo" else rng.choice([0, 0, 1, 2])
    nr = rng.randint(1, maxr)
    rounds = []
    for _ in range(nr):
        if focus == "fifo":
            a = rng.choice([0, 0, 0, 0, 1]); r = rng.choice([0, 1, 2, 2])
        else:
            a = rng.choice([0, 0, 0, 1]); r = rng.choice([0, 1, 2])
        rounds.append((a, r))
    return (kind, rounds)


def merges(a, b):
    """all interleavings of sequences a and b (as lists)"""
    if not a: return [list(b)]
    if not b: return [list(a)]
    return [[a[0]] + m for m in merges(a[1:], b)] + [[b[0]] + m for m in merges(a, b[1:])]


def directed(rng, tier, tag):
    """schedules aimed at the windows of the protocol.  While every thread is enabled the choice k selects
    thread k, so a prefix can be written as a list of thread ids; afterwards a random tail."""
    out = []
    def tail(n, w): return [rng.randint(0, w) for _ in range(n)]
    def add(cont, pre, w):
        out.append(mk("%sd%d" % (tag, len(out)), cont, list(pre) + tail(rng.choice([0, 6, 14]), w)))
    rels = [0, 1, 2]
    # (b) a release overlapping a request in flight: holder H = thread 0, requester W = thread 1.
    #     H: step, cas(ok) | cs, load, cas, (xchg)      W: step, cas(fails) | cas(null, fails), cas(publishes), m_pub tail
    for kh in (0, 1):
        for kw in (0, 1, 2):
            for rh in rels:
                for m in merges([0, 0, 0, 0], [1, 1, 1]):
                    cont = [(kh, [(0, rh), (0, rng.choice(rels))]), (kw, [(0, rng.choice(rels))])]
                    add(cont, [0, 0, 1, 1] + m, 1)
    # (c) try_lock racing unlock: T = thread 1 tries twice while H = thread 0 leaves the critical section
    for kh in (0, 1):
        for kt in (0, 1):
            for rh in rels:
                for m in merges([0, 0, 0], [1, 1, 1, 1]):
                    cont = [(kh, [(0, rh), (1, rng.choice(rels))]), (kt, [(1, rng.choice(rels)), (1, rng.choice(rels)), (0, 0)])]
                    add(cont, [0, 0, 1] + m, 1)
    # (a) two late arrivals between an owner's publishing CAS and its build_queue: threads X=0, H=1, A=2, B=3.
    #     H takes the mutex, X fails its try, H releases (mutex free), X publishes on null (now at m_pub),
    #     A and B fail their try and publish on top of X's request, then X runs m_pub and build_queue(X).
    arr = [[2, 2, 2, 2, 3, 3, 3, 3], [3, 3, 3, 3, 2, 2, 2, 2], [2, 3, 2, 3, 2, 3, 2, 3], [2, 2, 3, 3, 3, 3, 2, 2], [3, 2, 2, 3, 3, 2, 2, 3]]
    combos = [(kx, kh, ka, kb) for kx in (0, 1) for kh in (0, 1) for ka in (0, 1) for kb in (0, 1)]
    for (kx, kh, ka, kb) in combos:
        for rh in rels:
            for a in arr:
                if tier == "quick" and rng.random() < 0.6: continue
                cont = [(kx, [(0, rng.choice(rels)), (0, rng.choice(rels))]), (kh, [(0, rh), (rng.choice([0, 1]), rng.choice(rels))]),
                        (ka, [(0, rng.choice(rels))]), (kb, [(0, rng.choice(rels))])]
                cut = rng.choice([0, 4, 8])       # X's m_pub step before / between / after the arrivals
                pre = [1, 1, 0, 0, 1, 1, 1, 0] + a[:cut] + [0] + a[cut:] + [0]
                add(cont, pre, 3)
    # (a') 4 parties on 3 threads: coroutine 0 releases to coroutine 1 which then runs on thread 0 while thread 1 is
    #      still in the tail of await_suspend; plain thread 2 and coroutine 3-less variant arrive late
    for rh in rels:
        for m in merges([0, 0, 0, 0, 0], [2, 2, 2, 2]):
            cont = [(0, [(0, rh), (0, rng.choice(rels))]), (0, [(0, rng.choice(rels)), (0, rng.choice(rels))]), (1, [(0, rng.choice(rels)), (1, 0)])]
            add(cont, [0, 0, 1, 1, 1, 1] + m, 2)
    # (f) retry windows: between two adjacent atomic operations of requester A (thread 1: its try failed while H held the
    #     mutex, then H released) other contenders complete whole operations: N (thread 2) locks, Y (thread 3) requests ...
    #     4 parties; every atomic operation on _requests is a scheduling point, marked by the library or not.
    nf = 160 if tier == "quick" else 2500
    for i in range(nf):
        kinds = [rng.choice([0, 0, 1, 2]) for _ in range(4)]
        cont = [(kinds[0], [(0, rng.choice(rels)), (rng.choice([0, 1]), rng.choice(rels))]),
                (kinds[1], [(0, rng.choice(rels)), (0, rng.choice(rels))]),
                (kinds[2], [(rng.choice([0, 0, 1]), rng.choice(rels)), (0, rng.choice(rels))]),
                (kinds[3], [(0, rng.choice(rels))])]
        pre = [0, 0, 1, 1, 0, 0, 0]
        for _ in range(rng.choice([2, 3, 4])):
            pre += [1]
            chunks = [[2] * rng.choice([0, 2, 2, 3]), [3] * rng.choice([0, 3, 4, 4, 5]), [0] * rng.choice([0, 0, 1, 2])]
            rng.shuffle(chunks)
            for ch in chunks: pre += ch
        add(cont, pre, 3)
    # (d) the same schedule under every release flavour / (e) every mix of blocking and coroutine contenders
    base = [rng.randint(0, 3) for _ in range(40)]
    for kinds in [(0, 0, 0), (0, 1, 0), (1, 0, 1), (1, 1, 0), (1, 1, 1), (0, 0, 1)]:
        for r1 in rels:
            for r2 in rels:
                cont = [(kinds[0], [(0, r1), (0, r2)]), (kinds[1], [(0, r2), (0, r1)]), (kinds[2], [(0, r1), (1, r2)])]
                add(cont, base, 2)
    return out


def gen(seed, tier, focus):
    rng = random.Random(seed * 1000003 + (707 if focus == "mutex" else 808))
    n = 450 if tier == "quick" else 5000
    cases = []
    for i in range(n):
        nc = rng.choice([2, 2, 3, 3, 4]) if focus == "mutex" else rng.choice([2, 3, 3, 4, 4])
        maxr = 3 if nc <= 3 else 2
        cont = [rand_contender(rng, focus, maxr) for _ in range(nc)]
        L = rng.choice([0, 10, 20, 40, 60, 90])
        cases.append(mk("%s%d" % (focus[0], i), cont, rand_sched(rng, L, nc)))
    # malformed / degenerate stream: rejected declarations, no rounds, single contender
    bad = [[[1, 2, 0, 0]], [[1, 0, 0]], [[1, 0, 2, 0]], [[1, 0, 0, 3]], [[1]], [[2, 0, 0, 0]], [[1, 0]], [[1, 1]],
           [[1, 0, 0, 0]], [[1, 1, 1, 1]]]
    for j, b in enumerate(bad):
        ops = b + [[1, 0, 0, 2], [1, 1, 0, 0]] + [[9] + [rng.randint(0, 3) for _ in range(12)]]
        cases.append(Case("mx", "%sbad%d" % (focus[0], j), ops))
    cases += directed(rng, tier, focus[0])
    if tier != "quick":
        # systematic: every schedule prefix of length 13 over 2 choices (2 contenders x 2 rounds) and
        # of length 9 over 3 choices (3 contenders x 1 round), then lowest-thread-first
        cfg2 = [[(0, [(0, 0), (0, 2)]), (0, [(0, 1), (0, 0)])],
                [(0, [(0, 2), (0, 2)]), (1, [(0, 0), (0, 1)])],
                [(1, [(0, 0), (0, 0)]), (1, [(0, 1), (1, 0)])],
                [(0, [(0, 0), (1, 1)]), (0, [(0, 2), (0, 2)])]]
        cfg3 = [[(0, [(0, 0)]), (0, [(0, 2)]), (0, [(0, 1)])],
                [(0, [(0, 2)]), (1, [(0, 0)]), (0, [(0, 2)])],
                [(1, [(0, 0)]), (1, [(0, 1)]), (0, [(1, 0)])]]
        j = 0
        for cont in cfg2:
            for pre in itertools.product(range(2), repeat=13):
                cases.append(mk("%sx%d" % (focus[0], j), cont, pre)); j += 1
        for cont in cfg3:
            for pre in itertools.product(range(3), repeat=9):
                cases.append(mk("%sx%d" % (focus[0], j), cont, pre)); j += 1
        # two single-step preemptions at every pair of positions of a long lowest-first run
        for cont in cfg2[:2] + cfg3[:2]:
            for a in range(0, 34):
                for b in range(a, 34):
                    s = [0] * 34; s[a] = 1; s[b] = 1
                    cases.append(mk("%sx%d" % (focus[0], j), cont, s)); j += 1
    return cases


def nontrivial(case, model_obs):
    # at least two contenders, and at least 3 switches of OS thread in the executed trace
    tids = [l.split()[0] for l in model_obs if len(l.split()) == 3 and l.split()[0] != "777"]
    switches = sum(1 for a, b in zip(tids, tids[1:]) if a != b)
    return switches >= 3


def signature(case, impl_obs, model_obs):
    last = impl_obs[-1] if impl_obs else ""
    if last.startswith("CRASH"):
        return "mutex:" + last.split()[1]
    if last == "HANG":
        return "mutex:HANG"
    if any(l.startswith("778") for l in impl_obs):
        return "mutex:livelock"
    if any(l.startswith("777") for l in impl_obs):
        return "mutex:deadlock"
    for l in impl_obs:
        a = l.split()
        if len(a) == 4 and a[0] == "8" and a[1] != "0":
            return "mutex:overlap"
    return "mutex:oracle"


# ---------------------------------------------------------------- ownership objects (engine mxo, harness seq_mutex_own.cpp)
def gen_own(seed, tier, focus):
    rng = random.Random(seed * 1000003 + (717 if focus == "mutex" else 818))
    n = 500 if tier == "quick" else 6000
    cases = []
    def rop():
        k = rng.choice([1, 1, 2, 2, 2, 3, 3, 4, 5, 5, 6, 7, 8])
        m, i, j = rng.randint(0, 1), rng.randint(0, 3), rng.randint(0, 3)
        cb = [2, m, j] + [rng.randint(0, 3) for _ in range(rng.choice([0, 0, 1, 2]))]
        return {1: [1, m, j], 2: cb, 3: [3, j], 4: [4, j], 5: [5, i, j], 6: [6, i, j], 7: [7, j], 8: [8, m]}[k]
    for c in range(n):
        style = rng.random()
        ops = []
        if style < 0.5:
            ops = [rop() for _ in range(rng.randint(4, 24))]
        elif style < 0.7:
            # overwrite a holding ownership: by try_lock of the other mutex, by a callback grant, by a move, with waiters behind
            a, b, j, i = rng.randint(0, 1), rng.randint(0, 1), rng.randint(0, 3), rng.randint(0, 3)
            ops = [[1, a, j]] + [[2, a, rng.randint(0, 3)] for _ in range(rng.randint(0, 3))]
            ops += [rng.choice([[1, 1 - a, j], [1, b, j], [2, 1 - a, j], [5, i, j], [1, 1 - a, i], [6, i, j]])]
            ops += [[8, a], [8, 1 - a], [7, j]] + [rop() for _ in range(rng.randint(0, 8))]
        elif style < 0.85:
            # re-entrancy: the next waiter's callback stores its ownership into the slot that is being given up
            a, j = rng.randint(0, 1), rng.randint(0, 3)
            ops = [[1, a, j], [2, a, j]] + [[2, a, rng.choice([j, rng.randint(0, 3)])] for _ in range(rng.randint(0, 3))]
            ops += [rng.choice([[3, j], [3, j], [1, 1 - a, j], [5, (j + 1) % 4, j], [1, a, j]])]
            ops += [[7, j], [8, a], [3, j], [3, j], [8, a]] + [rop() for _ in range(rng.randint(0, 6))]
        elif style < 0.93:
            # a callback that releases two ownerships (of two mutexes) inside the hand-over
            a, j, i, q = rng.randint(0, 1), rng.randint(0, 3), rng.randint(0, 3), rng.randint(0, 3)
            ops = [[1, a, j], [1, 1 - a, i], [2, a, q, q, i] if rng.random() < 0.5 else [2, a, q, i, q]]
            ops += [[2, 1 - a, rng.randint(0, 3)] for _ in range(rng.randint(0, 2))]
            ops += [[3, j], [8, a], [8, 1 - a]] + [rop() for _ in range(rng.randint(0, 6))]
        else:
            # release twice, destroy, self move, moved-from
            j, a = rng.randint(0, 3), rng.randint(0, 1)
            ops = [[1, a, j], [3, j], [3, j], [7, j], [8, a], [1, a, j], [5, j, j], [7, j], [5, j, (j + 1) % 4], [7, j], [3, j],
                   [8, a], [4, (j + 1) % 4], [8, a]] + [rop() for _ in range(rng.randint(0, 6))]
        if rng.random() < 0.08:
            ops.insert(rng.randrange(len(ops) + 1), rng.choice([[1, 2, 0], [3, 9], [5, 0], [0], [6, 1, 1], [8, -1], [2, 0, 4]]))
        cases.append(Case("mxo", "%so%d" % (focus[0], c), ops))
    return cases


def nontrivial_own(case, model_obs):
    kinds = set(o[0] for o in case.ops if o)
    return len(case.ops) >= 5 and len(kinds) >= 3


def nontrivial_any(case, model_obs):
    if case.engine == "mxb":
        return sum(1 for o in case.ops if o and o[0] == 1) >= 2 and any(o and o[0] == 2 for o in case.ops)
    return nontrivial_own(case, model_obs) if case.engine == "mxo" else nontrivial(case, model_obs)


# ---------------------------------------------------------------- coroutines without a coro_queue (engine mxb, seq_mutex_bare.cpp)
def gen_bare(seed, tier):
    rng = random.Random(seed * 1000003 + 919)
    n = 300 if tier == "quick" else 3000
    cases = []
    for c in range(n):
        k = rng.randint(1, 5)
        ops, started, inside_known = [], 0, []
        rels = [rng.choice([0, 1, 2, 2]) for _ in range(k)]
        pending_open = []
        L = rng.randint(2, 14)
        for _ in range(L):
            if started < k and (rng.random() < 0.55 or not pending_open):
                ops.append([1, started, rels[started]]); pending_open.append(started); started += 1
            elif pending_open:
                # mostly the coroutine that is inside (the oldest not yet opened), sometimes a wrong one (rejected)
                x = pending_open[0] if rng.random() < 0.85 else rng.choice(pending_open)
                ops.append([2, x])
                if x == pending_open[0]: pending_open.pop(0)
        if rng.random() < 0.7:
            while started < k:
                ops.append([1, started, rels[started]]); pending_open.append(started); started += 1
            for x in pending_open: ops.append([2, x])
        if rng.random() < 0.1:
            ops.insert(rng.randrange(len(ops) + 1), rng.choice([[2, 9], [1, 7, 0], [3], [1, 0, 5], [2, -1]]))
        cases.append(Case("mxb", "b%d" % c, ops))
    return cases
