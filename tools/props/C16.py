"""C16 — publisher: subscribers see a gap-free, ordered, duplicate-free stream (publisher.h)."""
import itertools, random
from vlib import Case

RULE = ("engine pub: histories over publisher<int>/subscriber<int>: publish (single/batch), close, ~publisher, kick, subscribe "
        "(recent / at position / by copy) in the three modes, ~subscriber, position(), and next() split into its three "
        "locked steps await_ready / subscribe / await_resume, over min/max in 1..5 and unlimited; the generator keeps a "
        "shadow of each subscriber's protocol state so that histories follow the next() protocol (plus a small stream of "
        "protocol-breaking / malformed ops); thorough adds every history of length <= 8 over a 2-subscriber alphabet. "
        "A case is non-trivial when the model's trace follows the next() protocol for every subscriber, at least one "
        "value or end of stream is delivered and either an awaiter is woken or a step of another party (publish/close/"
        "kick/subscribe) falls between two steps of one next(); distinct = distinct op list.  engine pubt: a publisher "
        "thread (publish/batch/close/~publisher/kick/copy/leave) against 1-3 subscriber threads (blocking next(), a coroutine "
        "co_awaiting next(), polling next_ready()) under random schedules and, for fixed small programs, every schedule "
        "prefix of length 6 (quick) / 9 (thorough); non-trivial = a value is delivered and an awaiter is woken or steps of "
        "different threads interleave inside one next()")
SCOPE = ("publisher<T>::queue subscribe_lk/leave_lk/advance_lk/advance_suspend_lk/get_value_lk/push_lk/kick_lk/close, "
         "publisher publish/close/kick/destructor, subscriber constructors/copy/destructor/position and next() through "
         "co_awaiter's public await_ready/subscribe/await_suspend(fn)/await_resume; lock-granularity interleavings of any "
         "number of publisher/subscriber threads = histories over the split steps")
ASSUMPTIONS = ["every queue method holds the queue mutex for its whole body (resumptions happen after unlock), so an "
               "interleaving of threads is a sequence of whole locked steps; real threads are not run",
               "positions and stream length stay below 2^62",
               "a subscriber is not destroyed while an awaiter of it is parked; get_value is not called on a skip-mode "
               "subscriber that never advanced while nothing was ever published (get_value_lk indexes an empty deque)",
               "blocking next() runs on a helper thread that is parked and released through the guarded BLOCK hook in "
               "co_awaiter::sync(); which locked steps it executed is reported by the guarded LOG hooks (hooks/pub.patch)"]

W = 1 << 64


class Shadow:
    """steering-only copy of the queue's arithmetic; it decides which next() step is legal for a subscriber.
    Nothing here is used as an expected value."""
    def __init__(self, mn, mx):
        self.mn, self.mx = mn, (W - 1 if mx == 0 else mx)
        self.pos, self.q, self.closed, self.alive = 1, 0, False, True
        self.subs = {}     # sid -> dict(pos, mode, kicked, live, pc, eos)

    def used(self):
        return [s for s in self.subs.values() if s["live"]]

    def push(self, k):
        self.pos += k
        need = self.mn
        for s in self.used():
            if s["pc"] == "parked": s["pc"] = "adv"
            need = max(need, (self.pos - s["pos"]) % W)
        self.q = min(need, self.mx, self.q + k)

    def close(self):
        if not self.closed:
            self.closed = True
            self.push(0)

    def ready(self, s):
        if s["kicked"]: return False
        if (s["pos"] + 1) % W == self.pos and not self.closed: return False
        if s["mode"] == 1: s["pos"] = max(s["pos"] + 1, (self.pos - self.q) % W)
        elif s["mode"] == 2: s["pos"] = max(s["pos"] + 1, self.pos - 1)
        else: s["pos"] += 1
        return True

    def suspend(self, s):
        if s["kicked"]: return False
        s["pos"] += 1
        if self.closed: return False
        return s["pos"] == self.pos

    def get(self, s):
        """'v' value, 'e' eos, 'u' undefined; the skipping modes move the reader to the value they return"""
        if s["kicked"] or s["pos"] >= self.pos: return "e"
        rel = (self.pos - s["pos"] - 1) % W
        if s["mode"] == 0: return "e" if rel >= self.q else "v"
        if self.q == 0: return "u"
        if s["mode"] == 1:
            if rel >= self.q: s["pos"] = self.pos - self.q
        else:
            s["pos"] = self.pos - 1
        return "v"


def would_ub(sh, s):
    """the coming get step would index an empty deque (protocol-breaking situations only)"""
    return s["mode"] != 0 and not s["kicked"] and s["pos"] < sh.pos and sh.q == 0


def next_step(sh, sid, ops):
    """append the protocol-legal next step of subscriber sid; returns False if it is parked (nothing to do)"""
    s = sh.subs[sid]
    if s.get("blk"): return False
    if s["pc"] == "idle":
        ops.append([5, sid]); s["pc"] = "adv" if sh.ready(s) else "rf"
    elif s["pc"] == "rf":
        ops.append([6, sid])
        if sh.suspend(s): s["pc"] = "parked"
        else: s["pc"] = "adv"
    elif s["pc"] == "adv":
        if would_ub(sh, s): return False
        r = sh.get(s)
        ops.append([7, sid]); s["pc"] = "idle"
        if r == "e": s["eos"] = True
    else:
        return False
    return True


def block_next(sh, sid, ops):
    """bool(next()) on a helper thread: await_ready, await_ready, subscribe, (park | await_resume)"""
    s = sh.subs[sid]
    if s.get("blk") or s["pc"] not in ("idle", "rf"): return False
    import copy
    t = copy.deepcopy(s)
    ok = sh.ready(t) or sh.ready(t)
    parked = False
    if not ok: parked = sh.suspend(t)
    if not parked and would_ub(sh, t): return False
    s.update(t)
    ops.append([13, sid])
    if parked:
        s["pc"] = "parked"; s["blk"] = True
    else:
        if sh.get(s) == "e": s["eos"] = True
        s["pc"] = "idle"
    return True


def block_fin(sh, sid, ops):
    s = sh.subs[sid]
    if not s.get("blk") or s["pc"] != "adv" or would_ub(sh, s): return False
    ops.append([14, sid]); s["blk"] = False
    if sh.get(s) == "e": s["eos"] = True
    s["pc"] = "idle"
    return True


def poll(sh, sid, ops):
    s = sh.subs[sid]
    if s.get("blk") or s["pc"] not in ("idle", "rf"): return False
    import copy
    t = copy.deepcopy(s)
    if sh.ready(t):
        if would_ub(sh, t): return False
        s.update(t); ops.append([15, sid])
        if sh.get(s) == "e": s["eos"] = True
        s["pc"] = "idle"
    else:
        s.update(t); ops.append([15, sid]); s["pc"] = "rf"
    return True


def new_sub(sh, sid, mode, pos):
    sh.subs[sid] = {"pos": pos, "mode": mode, "kicked": False, "live": True, "pc": "idle", "eos": False}


def apply_abstract(sh, a, ops, val):
    """abstract letters -> concrete ops; returns False if the letter is not applicable"""
    k = a[0]
    if k == "P":
        if not sh.alive: return False
        ops.append([0, val[0]]); val[0] += 1; sh.push(1)
    elif k == "B":
        if not sh.alive: return False
        n = a[1]; ops.append([1] + [val[0] + i for i in range(n)]); val[0] += n
        if n: sh.push(n)
    elif k == "C":
        if not sh.alive: return False
        ops.append([10]); sh.close()
    elif k == "D":
        if not sh.alive: return False
        ops.append([12]); sh.close(); sh.alive = False
    elif k == "K":
        sid = a[1]
        if sid not in sh.subs: return False
        s = sh.subs[sid]
        if not (sh.alive or s["live"]): return False
        ops.append([8, sid])
        if s["live"]:
            s["kicked"] = True
            if s["pc"] == "parked": s["pc"] = "adv"
    elif k in ("N", "W", "F", "O"):
        sid = a[1]
        if sid not in sh.subs or not sh.subs[sid]["live"]: return False
        if k == "N": return next_step(sh, sid, ops)
        if k == "W": return block_next(sh, sid, ops)
        if k == "F": return block_fin(sh, sid, ops)
        return poll(sh, sid, ops)
    elif k == "S":      # subscribe recent
        sid, mode = a[1], a[2]
        if sid in sh.subs or not sh.alive: return False
        ops.append([2, sid, mode]); new_sub(sh, sid, mode, sh.pos - 1)
    elif k == "A":      # subscribe at position (pos - 1 - back)
        sid, mode, back = a[1], a[2], a[3]
        if sid in sh.subs or not sh.alive: return False
        p = sh.pos - 1 - back
        if p < 0: return False
        if mode != 0 and p > sh.pos - 1: return False
        ops.append([3, sid, mode, p]); new_sub(sh, sid, mode, p)
    elif k == "Y":      # copy
        sid, src = a[1], a[2]
        if sid in sh.subs or src not in sh.subs or not sh.subs[src]["live"]: return False
        ops.append([4, sid, src]); new_sub(sh, sid, sh.subs[src]["mode"], sh.subs[src]["pos"])
    elif k == "L":
        sid = a[1]
        if sid not in sh.subs or not sh.subs[sid]["live"] or sh.subs[sid].get("blk"): return False
        if sh.subs[sid]["pc"] == "parked" and not (len(a) > 2 and a[2]): return False   # ("L", s, 1) = also while parked
        ops.append([9, sid]); sh.subs[sid]["live"] = False
    elif k == "Q":
        sid = a[1]
        if sid not in sh.subs or not sh.subs[sid]["live"]: return False
        ops.append([11, sid])
    else:
        return False
    return True


def from_letters(name, mn, mx, letters):
    sh = Shadow(mn, mx)
    ops = [[mn, mx]]
    val = [100]
    for a in letters:
        apply_abstract(sh, a, ops, val)
    return Case("pub", name, ops)


def gen_random(rng, name, nletters):
    mn = rng.choice([1, 1, 1, 2, 3, 5])
    mx = rng.choice([0, 0, mn, mn, mn + 1, mn + 2, 5 if mn <= 5 else mn])
    nsub = rng.choice([1, 2, 2, 3, 4])
    letters = []
    sids = list(range(nsub + 3))
    modes = rng.choice([[0], [0], [0, 0, 1, 2], [1], [2], [0, 1, 2]])
    for i in range(nletters):
        r = rng.random()
        s = rng.choice(sids)
        if r < 0.26: letters.append(("N", rng.choice(sids[:nsub])))
        elif r < 0.30: letters.append((rng.choice("WFFO"), rng.choice(sids[:nsub])))
        elif r < 0.34: letters.append(("F", rng.choice(sids[:nsub])))
        elif r < 0.40: letters.append((rng.choice("NNWFO"), s))
        elif r < 0.60: letters.append(("P",))
        elif r < 0.65: letters.append(("B", rng.choice([0, 1, 2, 3, 6])))
        elif r < 0.68: letters.append(("C",))
        elif r < 0.69: letters.append(("D",))
        elif r < 0.73: letters.append(("K", s))
        elif r < 0.81: letters.append(("S", s, rng.choice(modes)))
        elif r < 0.86: letters.append(("A", s, rng.choice(modes), rng.choice([0, 1, 1, 2, 3, 6, -1, -2])))
        elif r < 0.92: letters.append(("Y", s, rng.choice(sids)))
        elif r < 0.96: letters.append(("L", s, rng.choice([0, 0, 1])))
        else: letters.append(("Q", s))
    if rng.random() < 0.7:
        letters = [("S", 0, rng.choice(modes))] + letters
    c = from_letters(name, mn, mx, letters)
    # a small malformed / protocol-breaking stream: executed identically by model and implementation
    if rng.random() < 0.12:
        bad = rng.choice([[6, 0], [7, 0], [5, 9], [9, 0], [13], [2, 0, 7], [3, 1, 0, -4], [4, 0, 0], [8, 77], [0], [5, -1],
                          [14, 0], [14, 9], [15, 9], [13, 9], [16]])
        c.ops.insert(rng.randrange(1, len(c.ops) + 1), bad)
    return c


def gen_churn(rng, name, n):
    """subscribers come and go (free-list reuse), some kicked before they leave; every newcomer then reads"""
    mn = rng.choice([1, 2]); mx = rng.choice([0, mn, mn + 1, 4])
    mode = rng.choice([0, 0, 1, 2])
    letters = []
    live, nxt = [], 0
    for _ in range(n):
        r = rng.random()
        if (r < 0.3 or not live) and nxt < 12:
            k = rng.random()
            if k < 0.6 or not live: letters.append(("S", nxt, mode))
            elif k < 0.8: letters.append(("Y", nxt, rng.choice(live)))
            else: letters.append(("A", nxt, mode, rng.choice([0, 1, 2])))
            live.append(nxt); nxt += 1
        elif r < 0.42:
            s = rng.choice(live)
            if rng.random() < 0.6: letters.append(("K", s))
            # finish a possibly started next() so that the destructor is legal, then leave
            letters += [("N", s)] * rng.choice([0, 1, 2, 3])
            letters.append(("L", s)); live.remove(s)
        elif r < 0.62: letters.append(("P",))
        else: letters.append(("N", rng.choice(live)))
    return from_letters(name, mn, mx, letters)


def boundary_cases():
    out = []
    b = 0
    def add(mn, mx, letters):
        nonlocal b
        out.append(from_letters("b%d" % b, mn, mx, letters)); b += 1
    N0, N1, P, C = ("N", 0), ("N", 1), ("P",), ("C",)
    for mode in (0, 1, 2):
        S0 = ("S", 0, mode)
        # close in each window of next(): before ready / between ready and subscribe / while parked / between wake and get
        add(1, 0, [S0, P, N0, N0, C, N0, N0, N0])
        add(1, 0, [S0, P, N0, N0, N0, C, N0, N0])
        add(1, 0, [S0, P, N0, N0, N0, N0, C, N0, N0, N0])
        add(1, 0, [S0, N0, N0, P, C, N0, N0, N0])
        # publish in each window
        add(1, 0, [S0, N0, P, N0, N0, N0, N0])
        add(1, 0, [S0, N0, N0, P, P, N0, N0, N0, N0, N0])
        add(1, 0, [S0, P, N0, P, P, N0, N0, N0, N0, N0, N0])
        # kick in each window, kick of a destroyed subscriber, kick after ~publisher
        add(1, 0, [S0, ("K", 0), N0, N0, N0])
        add(1, 0, [S0, N0, ("K", 0), N0, N0])
        add(1, 0, [S0, N0, N0, ("K", 0), N0, P, N0])
        add(1, 0, [S0, P, N0, ("K", 0), N0])
        add(1, 0, [S0, ("L", 0), ("K", 0), ("S", 1, mode), P, N1, N1])
        # the free list hands a kicked / parked-on subscriber's slot to a new subscriber
        add(1, 0, [S0, ("K", 0), ("L", 0), ("S", 1, mode), P, N1, N1, N1, N1, N1])
        add(1, 0, [S0, ("S", 1, mode), ("K", 1), ("K", 0), ("L", 0), ("L", 1), ("S", 2, mode), ("S", 3, mode), P,
                   ("N", 2), ("N", 2), ("N", 3), ("N", 3), P, ("N", 2), ("N", 2), ("N", 3), ("N", 3)])
        add(1, 0, [S0, P, N0, ("K", 0), N0, ("L", 0), ("A", 1, mode, 0), P, N1, N1, N1, N1])
        add(1, 0, [S0, N0, N0, ("D",), N0, ("K", 0), N0])
        # lag against max, min window, subscribe at a position
        for mn, mx in ((1, 1), (1, 2), (2, 2), (2, 3), (3, 5), (5, 5), (1, 0), (3, 0)):
            for k in (1, 2, 3, 4, 6):
                add(mn, mx, [S0] + [P] * k + [N0, N0] * (k + 1))
                add(mn, mx, [S0, N0] + [P] * k + [N0] * (2 * k + 2))
                add(mn, mx, [P] * k + [("A", 0, mode, j) for j in (k - 1,)] + [N0] * (2 * k + 2))
                add(mn, mx, [P] * 6 + [("A", 0, mode, k), P, N0, N0, N0, N0])
                add(mn, mx, [S0, ("B", k), N0, N0, ("B", k), ("S", 1, mode)] + [N0, N1] * (2 * k + 2))
        # two readers tied on the oldest retained item, two or more items behind (a moved-out element would be seen by
        # the second one): a subscriber and its copy, two subscribers created together, a late subscriber at a position
        for mn in (1, 2):
            add(mn, 0, [S0, P, P, P, ("Y", 1, 0), N0, N0, N1, N1, N0, N0, N1, N1])
            add(mn, 0, [S0, ("S", 1, mode), ("B", 3), N0, N0, N1, N1, N1, N1, N0, N0])
            add(mn, 0, [S0, P, P, P, ("A", 1, mode, 3), N1, N1, N0, N0, N0, N0, N1, N1])
        # copy: independent continuation, slot reuse through the free list
        add(1, 0, [S0, P, P, N0, N0, ("Y", 1, 0), N0, N0, N1, N1, N1, N1, P, N0, N1, N0, N1])
        add(1, 0, [S0, P, N0, ("Y", 1, 0), N0, N1, N1])
        add(2, 3, [S0, ("S", 1, mode), P, P, ("L", 0), ("S", 2, mode), ("N", 2), P, ("N", 2), ("N", 2), N1, N1, ("L", 1),
                   ("Y", 3, 2), ("S", 4, 0), ("N", 3), ("N", 3), ("N", 4), P, ("N", 4), ("N", 4)])
        # blocking next() (helper thread) and polled next_ready() in each situation
        W0, F0, O0 = ("W", 0), ("F", 0), ("O", 0)
        add(1, 0, [S0, P, W0, W0, P, F0, W0, C, F0, W0])
        add(1, 0, [S0, P, N0, N0, W0, P, P, F0, W0, W0, C, W0])
        add(1, 0, [S0, W0, ("B", 2), F0, O0, O0, O0, C, O0, O0])
        add(1, 0, [S0, W0, ("K", 0), F0, W0, O0])
        add(1, 0, [S0, P, N0, N0, ("K", 0), W0, O0])
        add(1, 0, [S0, ("S", 1, mode), W0, ("W", 1), P, F0, ("F", 1), W0, ("W", 1), ("D",), F0, ("F", 1)])
        add(1, 1, [S0, O0, P, O0, P, P, O0, O0, O0, C, O0])
        add(1, 1, [S0, P, N0, P, N0, O0, N0, N0, O0])
        add(1, 0, [S0, W0, ("Y", 1, 0), P, F0, N1, N1, ("L", 0), N1, N1])
        # a parked skipping subscriber woken by a batch; the window trimmed by max between ready and resume
        add(1, 0, [S0, N0, N0, ("B", 2), N0, N0, N0, N0, N0])
        add(1, 1, [S0, P, N0, P, N0, N0, N0, N0, N0])
        add(1, 0, [S0, P, C, O0, O0, O0, O0])
        # a subscriber destroyed while its awaiter is parked: that awaiter must never be resumed
        add(1, 0, [S0, N0, N0, ("L", 0, 1), P, C])
        add(1, 0, [S0, ("S", 1, mode), N0, N0, N1, N1, ("L", 0, 1), P, N1, N1, ("S", 2, mode), ("N", 2), ("N", 2), P, ("N", 2), C])
        add(1, 0, [S0, N0, N0, ("Y", 1, 0), ("L", 0, 1), P, N1, N1, ("K", 0), ("D",)])
        # two parked subscribers woken by one publish / close / ~publisher
        for w in (P, C, ("D",), ("B", 2)):
            add(1, 0, [S0, ("S", 1, mode), N0, N0, N1, N1, w, N0, N1, N0, N1, N0, N1])
    return out


ALPHA = [("P",), ("C",), ("N", 0), ("N", 1), ("K", 0), ("S", 1, 0), ("Y", 1, 0), ("L", 1)]
ALPHA_B = [("P",), ("B", 2), ("C",), ("W", 0), ("F", 0), ("O", 0), ("N", 1), ("K", 0), ("S", 1, 0)]


def exhaustive(maxlen, mode, cfgs, alpha=None):
    """every history of length <= maxlen over ALPHA with subscriber 0 (given mode) subscribed first; sequences whose
    letters are all applicable only (inapplicable letters would just repeat shorter histories)"""
    out = []
    i = 0
    for mn, mx in cfgs:
        def rec(prefix, sh, ops, val, depth):
            nonlocal i
            if depth:
                out.append(Case("pub", "x%d" % i, [list(o) for o in ops])); i += 1
            if depth == maxlen: return
            for a in (alpha or ALPHA):
                if a[0] == "S": a = ("S", 1, mode)
                import copy
                sh2 = copy.deepcopy(sh); ops2 = list(ops); val2 = [val[0]]
                if not apply_abstract(sh2, a, ops2, val2): continue
                rec(prefix + [a], sh2, ops2, val2, depth + 1)
        sh = Shadow(mn, mx); ops = [[mn, mx]]; val = [100]
        apply_abstract(sh, ("S", 0, mode), ops, val)
        rec([], sh, ops, val, 0)
    return out


def gen(seed, tier):
    rng = random.Random(seed * 104729 + 16)
    cases = boundary_cases()
    n = 1200 if tier == "quick" else 12000
    for i in range(n):
        cases.append(gen_random(rng, "g%d" % i, rng.choice([6, 10, 16, 24, 40])))
    for i in range(n // 4):
        cases.append(gen_churn(rng, "h%d" % i, rng.choice([10, 20, 30])))
    if tier == "quick":
        cases += exhaustive(5, 0, [(1, 0)])
        cases += [Case(c.engine, "y" + c.name, c.ops) for c in exhaustive(4, 2, [(1, 1)], ALPHA_B)]
    else:
        cases += exhaustive(8, 0, [(1, 1)])
        cases += exhaustive(7, 0, [(1, 0), (2, 2)])
        cases += exhaustive(6, 1, [(1, 1)])
        cases += exhaustive(6, 2, [(1, 1)])
        cases += [Case(c.engine, "y" + c.name, c.ops) for c in exhaustive(6, 0, [(1, 0)], ALPHA_B)]
        cases += [Case(c.engine, "z" + c.name, c.ops) for c in exhaustive(5, 2, [(1, 1)], ALPHA_B)]
        cases += [Case(c.engine, "w" + c.name, c.ops) for c in exhaustive(5, 1, [(1, 1)], ALPHA_B)]
    # malformed configurations
    cases.append(Case("pub", "cfg0", [[0, 1], [0, 5]]))
    cases.append(Case("pub", "cfg1", [[3, 2], [2, 0, 0]]))
    cases.append(Case("pub", "cfg2", [[1], [0, 5]]))
    return cases


def nontrivial(case, model_obs):
    if case.engine == "pubt": return nontrivial_thr(case, model_obs)
    return nontrivial_seq(case, model_obs)


def nontrivial_seq(case, model_obs):
    """protocol followed by every subscriber in the model's trace + something delivered + an interleaved step or a wake"""
    pc = {}
    st = {"delivered": False, "woke": False, "inter": False}
    inflight = set()
    lines = [l.split() for l in model_obs[1:]]
    pos = [0]

    def take():
        if pos[0] >= len(lines): return None
        a = lines[pos[0]]; pos[0] += 1
        return a

    def prim(k, sid):
        """one locked step; returns (ok, result) — ok False = protocol broken"""
        a = take()
        if a is None: return False, None
        if not a or a[0] == "1": return True, None
        if a[0] != "0": return False, None
        if len(a) > 4: st["woke"] = True
        if k == 5:
            if pc.get(sid) not in ("idle", "rf"): return False, None
            pc[sid] = "adv" if a[1] == "1" else "rf"; inflight.add(sid)
        elif k == 6:
            if pc.get(sid) != "rf": return False, None
            pc[sid] = "adv"
        elif k == 7:
            if pc.get(sid) != "adv": return False, None
            pc[sid] = "idle"; st["delivered"] = True; inflight.discard(sid)
        return True, a[1]

    for op in case.ops[1:]:
        k = op[0] if op else -1
        if k in (13, 15) and len(op) == 2:
            ok, r = prim(5, op[1])
            if not ok: return False
            if r is None: continue
            if r != "1" and k == 13:
                ok, r = prim(5, op[1])
                if not ok: return False
                if r != "1":
                    ok, r = prim(6, op[1])
                    if not ok: return False
                    if r == "1": continue
                    r = "1"
            if r == "1":
                ok, _ = prim(7, op[1])
                if not ok: return False
            continue
        if k == 14 and len(op) == 2:
            ok, _ = prim(7, op[1])
            if not ok: return False
            continue
        a = take()
        if a is None: return False
        if not a or a[0] == "1": continue
        if a[0] != "0": return False
        if len(a) > 4: st["woke"] = True
        if k in (0, 1, 10, 12, 8, 2, 3, 4) and inflight: st["inter"] = True
        if k in (2, 3, 4): pc[op[1]] = "idle"
        elif k in (5, 6, 7):
            pos[0] -= 1
            ok, _ = prim(k, op[1])
            if not ok: return False
    return st["delivered"] and (st["woke"] or st["inter"])


# ---------------------------------------------------------------- threaded engine (pubt)
def thr_case(name, mn, mx, subs, prog, sched, prog_b=()):
    """subs: [(mode, style, count[, action])], prog / prog_b: the two publisher programs (wire ops), sched: choices"""
    line = [100]
    for t in subs: line += [t[0], t[1], t[2], t[3] if len(t) > 3 else 0]
    return Case("pubt", name, [[mn, mx], line] + [list(o) for o in prog] + [[103] + list(o) for o in prog_b]
                + [[102] + list(sched)])


def gen_thr_random(rng, name):
    mn = rng.choice([1, 1, 2, 3]); mx = rng.choice([0, 0, mn, mn + 1])
    nsubs = rng.choice([1, 2, 2, 3])
    modes = rng.choice([[0], [0], [0, 1, 2], [1], [2]])
    acts = rng.choice([[0], [0], [0, 0, 1, 2], [0, 1, 2, 3, 4, 5], [1], [2]])
    subs = [(rng.choice(modes), rng.choice([0, 0, 1, 1, 1, 2]), rng.choice([1, 2, 3, 4]), rng.choice(acts)) for _ in range(nsubs)]
    prog, val, ncopy = [], 100, 0
    for _ in range(rng.randint(2, 8)):
        r = rng.random()
        if r < 0.5: prog.append([0, val]); val += 1
        elif r < 0.62:
            k = rng.choice([0, 2, 2, 3]); prog.append([1] + [val + i for i in range(k)]); val += k
        elif r < 0.72: prog.append([8, rng.randrange(nsubs + ncopy)])
        elif r < 0.82: prog.append([4, nsubs + ncopy, rng.randrange(nsubs + ncopy)]); ncopy += 1
        elif r < 0.92: prog.append([9, rng.randrange(nsubs + max(ncopy, 1))])
        elif r < 0.95: prog.append([10])
        elif r < 0.97: prog.append([12])
        else: prog.append(rng.choice([[5, 0], [13], [2, 7, 0], [0]]))   # not executed by the publisher thread: skipped
    prog.append(rng.choice([[10], [10], [12]]))
    if rng.random() < 0.2: prog.append(rng.choice([[0, val], [10], [8, 0], [12]]))
    prog_b = []
    if rng.random() < 0.3:
        for _ in range(rng.randint(1, 4)):
            r = rng.random()
            if r < 0.6: prog_b.append([0, val]); val += 1
            elif r < 0.75: prog_b.append([1, val, val + 1]); val += 2
            elif r < 0.85: prog_b.append([8, rng.randrange(nsubs)])
            else: prog_b.append([10])
    sched = [rng.randrange(6) for _ in range(rng.choice([20, 40, 70]))]
    return thr_case(name, mn, mx, subs, prog, sched, prog_b)


def thr_exhaustive(tag, mn, mx, subs, prog, depth):
    out = []
    n = len(subs) + 1
    for i, sch in enumerate(itertools.product(range(n), repeat=depth)):
        out.append(thr_case("%s_%d" % (tag, i), mn, mx, subs, prog, list(sch)))
    return out


def gen_thr(seed, tier):
    rng = random.Random(seed * 7368787 + 1616)
    cases = []
    # ~publisher / close / kick with parked subscribers on other threads, copy and leave while parked
    b = 0
    for style in (0, 1):
        for mode in (0, 1, 2):
            for prog in ([[12]], [[10]], [[8, 0], [0, 100], [10]], [[0, 100], [4, 5, 0], [9, 0], [0, 101], [9, 5], [12]],
                         [[4, 5, 0], [0, 100], [1, 101, 102], [12]], [[0, 100], [9, 0], [0, 101], [10]]):
                for sched in ([1] * 6 + [0] * 30, [1, 2] * 4 + [0] * 30, [0] * 40, [2, 1, 0] * 12):
                    cases.append(thr_case("tb%d" % b, 1, 0, [(mode, style, 3), (mode, 1 - style, 2)], prog, sched)); b += 1
    # re-entrant subscribers: two or three parked coroutines, the first resumed one publishes / closes / kicks / destroys
    # itself inside the waker's wake-up loop; and two publisher threads on one publisher
    for mode in (0, 2):
        for act in (1, 2, 3, 4, 5):
            for others in ([(mode, 1, 3, 0)], [(mode, 1, 3, 0), (mode, 0, 3, 0)], [(mode, 0, 3, 0), (mode, 1, 3, 0)]):
                for first in (0, 1):
                    subs = [(mode, 1, 3, act)] + others if first == 0 else others + [(mode, 1, 3, act)]
                    for prog in ([[0, 100], [0, 101], [10]], [[1, 100, 101], [12]], [[10]]):
                        for sched in ([1, 2, 3] * 4 + [0] * 40, [3, 2, 1] * 4 + [0] * 40, [1, 1, 2, 2, 3, 3] * 2 + [0, 1] * 20):
                            cases.append(thr_case("tr%d" % b, 1, 0, subs, prog, sched)); b += 1
    for sched in ([1, 2] * 4 + [0, 2] * 20, [1, 2] * 4 + [2, 0] * 20, [1, 1, 2, 2, 0, 3, 0, 3, 1, 2] * 4):
        for style in (0, 1):
            cases.append(thr_case("tp%d" % b, 1, 0, [(0, 1, 4, 0), (0, style, 4, 0)], [[0, 100], [0, 101], [10]],
                                  sched, [[0, 200], [0, 201]])); b += 1
    n = 400 if tier == "quick" else 6000
    for i in range(n):
        cases.append(gen_thr_random(rng, "tg%d" % i))
    if tier == "quick":
        cases += thr_exhaustive("tx", 1, 0, [(0, 0, 2), (0, 1, 2)], [[0, 100], [0, 101], [10]], 6)
        cases += thr_exhaustive("tz", 1, 0, [(0, 1, 2, 1), (0, 1, 2, 0)], [[0, 100], [10]], 6)
        cases += thr_exhaustive("ty", 1, 1, [(2, 1, 2), (1, 0, 2)], [[0, 100], [1, 101, 102], [12]], 6)
    else:
        for k, (mn, mx, subs, prog) in enumerate([
                (1, 0, [(0, 0, 2), (0, 1, 2)], [[0, 100], [0, 101], [10]]),
                (1, 1, [(2, 1, 2), (1, 0, 2)], [[0, 100], [1, 101, 102], [12]]),
                (1, 1, [(0, 1, 3), (0, 2, 3)], [[0, 100], [0, 101], [0, 102], [10]]),
                (1, 0, [(0, 1, 2), (0, 1, 2)], [[0, 100], [8, 0], [0, 101], [12]]),
                (2, 2, [(1, 0, 2), (2, 2, 3)], [[1, 100, 101], [0, 102], [10]]),
                (1, 0, [(0, 1, 2, 1), (0, 1, 2, 0)], [[0, 100], [10]]),
                (1, 0, [(0, 1, 2, 2), (0, 1, 2, 0), (0, 0, 2, 0)], [[0, 100], [0, 101], [10]])]):
            cases += thr_exhaustive("tx%d" % k, mn, mx, subs, prog, 9 if len(subs) <= 2 else 7)
    cases.append(Case("pubt", "tbad0", [[1, 0], [100, 0, 0, 1], [102]]))
    cases.append(Case("pubt", "tbad1", [[1, 0], [100, 0, 3, 1, 0], [0, 1], [102, 0]]))
    cases.append(Case("pubt", "tbad2", [[1, 0], [100, 0, 0, 1, 0], [0, 1]]))
    cases.append(Case("pubt", "tbad3", [[1, 0], [100, 0, 0, 1, 6], [0, 1], [102, 0]]))
    return cases


def close_case(case):
    """a threaded case whose publisher never closes leaves its blocked subscribers waiting forever by design: keep a
    close in the program (used while shrinking)"""
    if case.engine != "pubt" or len(case.ops) < 3 or not case.ops[-1] or case.ops[-1][0] != 102: return case
    prog = case.ops[2:-1]
    if any(o in ([10], [12]) for o in prog): return case
    return Case(case.engine, case.name, case.ops[:-1] + [[10], case.ops[-1]], case.meta)


def nontrivial_thr(case, model_obs):
    delivered = woke = inter = False
    inflight = {}
    for l in model_obs[1:]:
        a = l.split()
        if len(a) < 7 or a[3] != "0": continue
        tid, code, arg = a[0], a[1], a[2]
        if code in ("200", "203", "205") and len(a) > 7: woke = True
        if code == "5": inflight[arg] = True
        elif code == "7":
            inflight.pop(arg, None)
            if a[4] == "1": delivered = True
        if code in ("200", "203", "205", "5", "6", "7") and any(k != arg or code in ("200", "203", "205") for k in inflight): inter = True
    return delivered and (woke or inter)


def obs_equal(case, model_obs, impl_obs):
    """same lines; the resumed-awaiter lists are compared as multisets (helper threads of blocking calls are
    detected after the logging awaiters)"""
    if len(model_obs) != len(impl_obs): return False
    k = 7 if case.engine == "pubt" else 4
    for i, (a, b) in enumerate(zip(model_obs, impl_obs)):
        if a == b: continue
        x, y = a.split(), b.split()
        kk = 4 if i == 0 else k
        if x[:kk] != y[:kk] or sorted(x[kk:]) != sorted(y[kk:]): return False
    return True


def signature(case, impl_obs, model_obs):
    last = impl_obs[-1] if impl_obs else ""
    if last.startswith("CRASH"):
        kind = last.split()[1] if len(last.split()) > 1 else "crash"
    elif last == "HANG":
        kind = "HANG"
    else:
        kind = "oracle"
    return "%s:%s" % (case.engine, kind)


PARTS = [{"name": "seq_pub", "harness": "seq_pub.cpp", "gen": gen},
         {"name": "ctl_pub", "harness": "ctl_pub.cpp", "gen": gen_thr}]
