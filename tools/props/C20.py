"""C20 — the core synchronisation primitives never allocate (future/promise, awaiter chains, mutex, suspend_point,
synchronous generator steps; only coroutine frames are allocated, none under a non-heap storage)."""
import os, random
import vlib
from vlib import Case

RULE = ("programs over future create/get_promise/await (coroutine, blocking thread, callback awaiter)/resolve (value, "
        "exception, drop, ~promise; suspend point discarded, co_awaited or kept)/destroy, mutex try_lock/lock (3 waiter "
        "kinds)/unlock hand-over, suspend point variables, generator steps (sync, future, co_await), pause; normal and "
        "coroutine mode, heap and pooled frames; aimed at 0..3 vs 4+ handles, 1..5 waiters per kind, 1..6 mutex waiters, "
        "enqueue counts around 63/64/65/127/128/129 and deque map growth; non-trivial = at least one waiter is resumed / "
        "granted the lock in the model run; distinct = distinct op list")
SCOPE = ("allocation and free counts and bytes per step of future.h/awaiter.h/mutex.h/suspend_point.h/generator.h/"
         "coro_queue.h/async.h operations, split into coroutine frames and everything else")
ASSUMPTIONS = ["payload types are int and void; the exception payload is created before the measured region",
               "each case starts with a freshly constructed thread-local deque (cursor at the start of its first node), "
               "as on a thread whose first touch of the ready queue was the warm-up",
               "blocking waits are executed by helper threads that are parked at the library's flag-wait hook; "
               "thread creation is outside the measured region",
               "libstdc++ (g++ 12) std::deque layout: 512-byte nodes, initial map of 8"]
TRUSTED_EXTRA = ["replaced global operator new/delete with a 16-byte size/tag header (harness/seq_alloc.cpp)"]

NF, NM, NG, NS, NH, NC, NK = 8, 4, 4, 4, 6, 32, 4
ENGINES = ("al0h", "al1h", "al0s", "al1s")


class Sim:
    """light bookkeeping so that generated ops are mostly valid (NOT an oracle: nothing here is compared)"""
    def __init__(self, coro):
        self.coro = coro
        self.fst = [0] * NF
        self.chain = [[] for _ in range(NF)]     # (kind, idx)
        self.ref = [0] * NF                      # queued / held coroutine readers of a ready future
        self.mst = [0] * NM
        self.mq = [[] for _ in range(NM)]
        self.gens = [None] * NG
        self.slots = [[] for _ in range(NS)]     # items ('f', f) / ('m', m)
        self.rq = []
        self.hbusy = [False] * NH
        self.cbusy = [False] * NC
        self.enq = 0
        self.cfp = [False] * NK
        self.wid = 0
        self.frames = 0

    def fresh(self):
        self.wid += 1
        return self.wid

    def run_items(self, items):
        for k, o in items:
            if k == 'f':
                self.ref[o] -= 1
            elif k == 'm':
                self.mst[o] = 1
            elif k == 'sf':          # deferred start of a waiter
                self.ref[o] -= 1
                if self.fst[o] == 2: self.chain[o].append((0, 0))
            else:                    # deferred start of a locker
                if self.mst[o] == 0: self.mst[o] = 1
                else: self.mq[o].append((0, 0))

    def drain(self, first, pushed):
        self.enq += len(pushed) + 1
        order = first + self.rq + pushed
        self.rq = []
        self.run_items(order)

    def dispose(self, items, how, s):
        if how == 2:
            self.slots[s] += items
        elif not self.coro:
            self.run_items(items)
        elif how == 0:
            self.rq += items
            self.enq += len(items)
        elif items:
            self.drain([items[-1]], items[:-1])


def gen_random(rng, engine, name, nops, aim_pre):
    coro = engine[2] == '1'
    S = Sim(coro)
    ops = []
    for _ in range(aim_pre):
        ops.append([31])
        S.enq += 1
    def hows():
        r = rng.random()
        if coro:
            return 0 if r < 0.45 else (1 if r < 0.85 else 2)
        return 0 if r < 0.8 else 2
    for _ in range(nops):
        if len(S.rq) > 100 or S.frames > 200:
            if coro:
                ops.append([31]); S.drain([], [])
            continue
        r = rng.random()
        if r < 0.12:
            dead = [f for f in range(NF) if S.fst[f] == 0]
            if dead:
                f = rng.choice(dead)
                ops.append([1, f, rng.choice([0, 0, 1, 2, 3, 4, 5])]); S.fst[f] = 1
                if rng.random() < 0.9:
                    ops.append([2, f]); S.fst[f] = 2
                    if rng.random() < 0.2: ops.append([8, f])
            continue
        if r < 0.42:
            fs = [f for f in range(NF) if S.fst[f] in (2, 3)]
            if not fs: continue
            f = rng.choice(fs)
            burst = rng.choice([1, 1, 1, 2, 3, 4, 5])
            for _ in range(burst):
                k = rng.choice([0, 0, 0, 1, 2, 3])
                if k == 3:
                    ops.append([9, f, S.fresh(), rng.randrange(3)]); S.frames += 1
                    if coro:
                        S.rq.append(('sf', f)); S.ref[f] += 1; S.enq += 1
                    elif S.fst[f] == 2: S.chain[f].append((0, 0))
                elif k == 0:
                    mode = rng.choice([1, 2]) if (coro and rng.random() < 0.4) else 0
                    ops.append([3, f, S.fresh(), mode]); S.frames += 1
                    if mode == 2:
                        S.rq.append(('sf', f)); S.ref[f] += 1; S.enq += 1
                    elif S.fst[f] == 2: S.chain[f].append((0, 0))
                    if mode == 1: S.drain([], [])
                elif k == 1:
                    free = [t for t in range(NH) if not S.hbusy[t]]
                    if not free: continue
                    t = rng.choice(free)
                    ops.append([4, f, t])
                    if S.fst[f] == 2: S.chain[f].append((1, t)); S.hbusy[t] = True
                else:
                    free = [c for c in range(NC) if not S.cbusy[c]]
                    if not free: continue
                    c = rng.choice(free)
                    ops.append([5, f, c])
                    if S.fst[f] == 2: S.chain[f].append((2, c)); S.cbusy[c] = True
            continue
        if r < 0.60:
            fs = [f for f in range(NF) if S.fst[f] == 2]
            if not fs: continue
            f = rng.choice(fs)
            kind = rng.choice([0, 0, 0, 1, 2, 3, 4])
            how = 0 if kind >= 3 else hows()
            if kind < 3 and rng.random() < 0.2: how += 10
            s = rng.randrange(NS)
            ops.append([6, f, kind, how, s, rng.randrange(1, 1000)])
            S.fst[f] = 3
            items = []
            for k, i in S.chain[f]:
                if k == 0: items.append(('f', f)); S.ref[f] += 1
                elif k == 1: S.hbusy[i] = False
                else: S.cbusy[i] = False
            S.chain[f] = []
            if how >= 10: items.reverse()
            S.dispose(items, how % 10, s)
            continue
        if r < 0.66:
            fs = [f for f in range(NF) if S.fst[f] in (1, 3)]
            if fs:
                f = rng.choice(fs)
                ops.append([7, f])
                if S.ref[f] == 0: S.fst[f] = 0
            continue
        if r < 0.80:
            m = rng.randrange(NM)
            k = rng.choice([0, 0, 1, 2, 3])
            if k == 3:
                ops.append([10, m])
                if S.mst[m] == 0: S.mst[m] = 1
            elif k == 0:
                mode = rng.choice([1, 2]) if (coro and rng.random() < 0.4) else 0
                ops.append([11, m, S.fresh(), mode]); S.frames += 1
                if mode == 2:
                    S.rq.append(('sm', m)); S.enq += 1
                elif S.mst[m] == 0: S.mst[m] = 1
                else: S.mq[m].append((0, 0))
                if mode == 1: S.drain([], [])
            elif k == 1:
                free = [t for t in range(NH) if not S.hbusy[t]]
                if not free: continue
                t = rng.choice(free)
                ops.append([12, m, t])
                if S.mst[m] == 0: S.mst[m] = 1
                else: S.mq[m].append((1, t)); S.hbusy[t] = True
            else:
                free = [c for c in range(NC) if not S.cbusy[c]]
                if not free: continue
                c = rng.choice(free)
                ops.append([13, m, c])
                if S.mst[m] == 0: S.mst[m] = 1
                else: S.mq[m].append((2, c)); S.cbusy[c] = True
            continue
        if r < 0.90:
            ms = [m for m in range(NM) if S.mst[m] == 1]
            if not ms: continue
            m = rng.choice(ms)
            how = hows(); s = rng.randrange(NS)
            ops.append([14, m, how, s])
            if not S.mq[m]:
                S.mst[m] = 0
                S.dispose([], how, s)
            else:
                k, i = S.mq[m].pop(0)
                if k == 0:
                    S.mst[m] = 2
                    S.dispose([('m', m)], how, s)
                else:
                    S.mst[m] = 1
                    if k == 1: S.hbusy[i] = False
                    else: S.cbusy[i] = False
                    S.dispose([], how, s)
            continue
        if r < 0.94:
            g = rng.randrange(NG)
            if S.gens[g] is None:
                ops.append([20, g, rng.randrange(0, 5), rng.choice([0, 1])]); S.gens[g] = 1
            elif rng.random() < 0.8:
                ops.append([21, g, rng.choice([0, 1, 2, 3, 4, 5, 6, 7, 7, 8] if coro else [0, 1, 3, 4, 6, 7, 7, 8]), rng.randrange(0, 9)])
            else:
                ops.append([22, g]); S.gens[g] = None
            continue
        if r < 0.955:
            k = rng.randrange(NK)
            if S.cfp[k]:
                ops.append([41, k, rng.choice([0, 0, 1, 2]), rng.randrange(1, 500)]); S.cfp[k] = False
            else:
                mode = rng.choice([0, 0, 1, 2, 3, 3])
                ops.append([40, k, mode, rng.randrange(1, 500), rng.choice([0, 0, 1, 2, 5])]); S.cfp[k] = mode == 3
            continue
        if r < 0.97:
            s = rng.randrange(NS)
            how = 1 if (coro and rng.random() < 0.5) else 0
            ops.append([30, s, how])
            items, S.slots[s] = S.slots[s], []
            S.dispose(items, how, 0)
            continue
        if coro:
            ops.append([31]); S.drain([], [])
        else:
            ops.append([rng.choice([31, 99])])    # rejected in normal mode / unknown opcode
    if rng.random() < 0.1:
        ops.insert(rng.randrange(len(ops) + 1), rng.choice([[6, 9, 0, 0, 0, 1], [3, 0], [14, 0, 5, 0], [4, 0, 7], [1, 0, 4], [21, 3, 7, 0], [21, 0, 6, 1], [6, 0, 0, 13, 0, 1], [8, 9], [20, 0, 1], [40, 0, 4, 1, 0], [40, 4, 0, 1, 0], [41, 0, 0, 1], [40, 0, 0, 1, 6], [1, 0, 6], [9, 0, 1, 3], [21, 0, 9, 0]]))
    return Case(engine, name, ops)


def waiters_case(engine, name, f, ncoro, nsync, ncb, kind, how, ty=0, pre=0, post_pause=True, mode=0):
    coro = engine[2] == '1'
    ops = [[31]] * pre if coro else []
    ops = [list(o) for o in ops]
    ops += [[1, f, ty], [2, f]]
    seq = [0] * ncoro + [1] * nsync + [2] * ncb
    # deterministic interleaving of the kinds
    seq = sorted(range(len(seq)), key=lambda i: (i * 7) % 5)
    kinds = ([0] * ncoro + [1] * nsync + [2] * ncb)
    t = c = 0
    w = 10
    for i in seq:
        k = kinds[i]
        if k == 0:
            ops.append([3, f, w, mode if coro else 0]); w += 1
        elif k == 1:
            ops.append([4, f, t]); t += 1
        else:
            ops.append([5, f, c]); c += 1
    ops.append([6, f, kind, how, 1, 77])
    if how % 10 == 2:
        ops.append([30, 1, 1 if coro else 0])
    if coro and post_pause:
        ops.append([31])
    ops.append([7, f])
    return Case(engine, name, ops)


def mutex_case(engine, name, kinds, hows, pre=0):
    coro = engine[2] == '1'
    ops = [[31] for _ in range(pre)] if coro else []
    ops.append([10, 0])
    w, t, c = 30, 0, 0
    for k in kinds:
        if k == 0:
            ops.append([11, 0, w, 0]); w += 1
        elif k == 1:
            ops.append([12, 0, t]); t += 1
        else:
            ops.append([13, 0, c]); c += 1
    ops.append([10, 0])      # try_lock on a contended mutex
    for i in range(len(kinds) + 1):
        how = hows[i % len(hows)]
        if how == 1 and not coro: how = 0
        ops.append([14, 0, how, 2])
        if how == 2:
            ops.append([30, 2, 0])
        if coro:
            ops.append([31])
    ops.append([10, 0]); ops.append([14, 0, 0, 0])
    return Case(engine, name, ops)


def rounds_case(engine, name, pre, rounds, how):
    """coroutine mode steady state: `pre` pauses, then rounds of resolve + (co_await | discard + pause)"""
    ops = [[31] for _ in range(pre)]
    for i in range(rounds):
        ops += [[1, 0, 0], [2, 0], [3, 0, 100 + i, 0], [6, 0, 0, how, 0, i]]
        if how == 0:
            ops.append([31])
        ops.append([7, 0])
    return Case(engine, name, ops)


def witness_ops():
    """the program of Coq's c20_zero_alloc_refuted, printed by the extracted model itself (engine alw)"""
    p = os.path.join(vlib.BUILD, "alw_%d.txt" % os.getpid())
    os.makedirs(vlib.BUILD, exist_ok=True)
    with open(p, "w") as f:
        f.write("CASE alw w\nEND\n")
    try:
        lines = vlib.modelrun(p).get("w", [])
    finally:
        os.remove(p)
    return [[int(x) for x in l.split()] for l in lines]


def gen(seed, tier):
    rng = random.Random(seed * 104729 + 20)
    cases = []
    b = [0]
    def add(c):
        c.name = "d%d" % b[0]; b[0] += 1
        cases.append(c)
    quick = tier == "quick"
    w = witness_ops()
    if w:
        add(Case("al1h", "w", w)); add(Case("al1s", "w", w)); add(Case("al0h", "w", w))
    # 0..3 vs 4 handles (and the doubling boundaries 6/7, 12/13), every way of disposing, both modes
    for eng in ENGINES:
        coro = eng[2] == '1'
        for nco in (0, 1, 2, 3, 4, 5, 6, 7, 12, 13):
            for how in ((0, 1, 2) if coro else (0, 2)):
                if quick and eng[3] == 's' and nco > 5: continue
                add(waiters_case(eng, "", 0, nco, 0, 0, 0, how))
        # 1..5 waiters of each kind, all resolution kinds
        for k in range(1, 6):
            for kind in (0, 1, 2, 3):
                how = 0 if kind == 3 else (k % 3 if coro else (k % 2) * 2)
                add(waiters_case(eng, "", k % NF, k if kind != 1 else 3, k, k, kind, how, ty=(k + kind) % 6))
            add(waiters_case(eng, "", k, k, k % 3, k % 2, 4, 0, ty=k % 6))      # move-assignment of an empty promise
        # every value type x every resolution kind, with and without waiters (bulky values: 264 and 1024 bytes)
        for ty in range(6):
            for kind in (0, 1, 2, 3, 4):
                add(waiters_case(eng, "", ty, 0, 0, 0, kind, 0, ty=ty)); add(waiters_case(eng, "", ty, 1, 1, 1, kind, 0, ty=ty))
        # call_fn_future_awaiter: operation completed synchronously (value / exception / no value), pending then resolved,
        # and the handler re-arming itself 0..5 times
        for r_ in (0, 1, 2, 5):
            add(Case(eng, "", [[40, 0, 0, 10, r_], [40, 0, 1, 0, r_], [40, 0, 2, 0, r_], [40, 1, 3, 0, r_], [40, 0, 0, 20, 0], [41, 1, 0, 30],
                               [40, 1, 3, 0, r_], [41, 1, 1, 0], [40, 2, 3, 0, r_], [41, 2, 2, 0], [40, 2, 0, 40, r_]]))
        add(waiters_case(eng, "", 1, 3, 5, 5, 0, 0)); add(waiters_case(eng, "", 1, 0, 5, 0, 1, 0)); add(waiters_case(eng, "", 1, 0, 0, 5, 2, 0, ty=1))
        # resolution inside coro_queue::create_suspend_point
        for nco in (0, 1, 2, 3, 4, 6, 7, 13):
            for how in ((10, 11, 12) if coro else (10, 12)):
                add(waiters_case(eng, "", 2, nco, nco % 2, nco % 3, nco % 3, how, ty=nco % 6))
        if coro:
            # coroutines whose start goes through the ready queue
            for nco in (1, 2, 3, 4, 5):
                add(waiters_case(eng, "", 3, nco, 1, 1, 0, nco % 3, mode=2)); add(waiters_case(eng, "", 3, nco, 0, 0, 2, 10 + nco % 3, mode=2, ty=3))
            add(Case(eng, "", [[10, 1], [11, 1, 5, 2], [11, 1, 6, 2], [11, 2, 7, 2], [31], [14, 1, 1, 0], [14, 1, 0, 0], [31], [14, 1, 0, 0], [14, 2, 0, 0]]))
        # generator with and without an argument, promise moves
        add(Case(eng, "", [[20, 0, 3, 1], [21, 0, 0, 5], [21, 0, 1, 6]] + ([[21, 0, 2, 7]] if coro else [[21, 0, 0, 7]]) + [[21, 0, 0, 8], [21, 0, 0, 9], [22, 0],
                           [20, 1, 2, 0], [21, 1, 0, 4], [21, 1, 1, 4], [21, 1, 1, 4], [22, 1]]))
        # iterator styles: prefix ++, postfix ++, range-for, mixed with next() / gen()
        for style in (6, 7):
            add(Case(eng, "", [[20, 0, 5, 0]] + [[21, 0, style, 0] for _ in range(7)] + [[22, 0]]))
        add(Case(eng, "", [[20, 1, 6, 0], [21, 1, 0, 0], [21, 1, 7, 0], [21, 1, 1, 0], [21, 1, 6, 0], [21, 1, 7, 0], [21, 1, 8, 0], [21, 1, 7, 0], [21, 1, 8, 0], [22, 1],
                           [20, 1, 3, 0], [21, 1, 8, 0], [22, 1], [20, 1, 0, 0], [21, 1, 7, 0], [21, 1, 6, 0], [22, 1], [20, 2, 2, 1], [21, 2, 7, 1], [21, 2, 8, 1], [22, 2]]))
        # callback_await / callback_await_alloc: closure kinds x value types x resolution kinds; ready and pending futures
        for cap in (0, 1, 2):
            for ty in range(6):
                add(Case(eng, "", [[1, 0, ty], [2, 0], [9, 0, 50 + cap, cap], [9, 0, 60 + cap, (cap + 1) % 3]] + ([[31]] if coro else []) +
                                  [[6, 0, (cap + ty) % 3, 0, 0, 7 + ty]] + ([[31]] if coro else []) + [[9, 0, 70, cap]] + ([[31]] if coro else []) + [[7, 0]]))
        # generator with an argument stepped through every access style with a variable and with a temporary
        for style in ([0, 1, 2, 3, 4, 5] if coro else [0, 1, 3, 4]):
            add(Case(eng, "", [[20, 2, 4, 1]] + [[21, 2, style, 3 + i] for i in range(6)] + [[22, 2]]))
        add(Case(eng, "", [[20, 3, 6, 1]] + [[21, 3, st_, 2 * i] for i, st_ in enumerate([3, 0, 4, 1] + ([5, 2] if coro else [3, 4]))] + [[21, 3, 3, 1], [21, 3, 3, 1], [22, 3], [20, 3, 2, 0], [21, 3, 3, 0], [21, 3, 4, 0], [22, 3]]))
        add(Case(eng, "", [[1, 0, 3], [2, 0], [8, 0], [3, 0, 5, 0], [8, 0], [6, 0, 0, 0, 0, 9], [8, 0], [7, 0], [1, 1, 2], [2, 1], [4, 1, 0], [5, 1, 0], [6, 1, 0, 0, 0, 11], [7, 1]]))
        # contended mutex with 1..6 waiters
        for nw in range(0, 7):
            add(mutex_case(eng, "", [0] * nw, [0]))
            add(mutex_case(eng, "", [(i * 2 + nw) % 3 for i in range(nw)], [0, 1, 2]))
            if not quick or nw in (1, 6):
                add(mutex_case(eng, "", [1] * min(nw, NH), [1, 0])); add(mutex_case(eng, "", [2] * nw, [2, 0]))
    # ready-queue cursor around the node boundaries
    for eng in ("al1h", "al1s"):
        for base in (64, 128) + (() if quick else (192, 256, 320)):
            for d in (-3, -2, -1, 0, 1):
                add(rounds_case(eng, "", base + d, 3, 1)); add(rounds_case(eng, "", base + d, 3, 0))
                if not quick or d in (-1, 0):
                    add(waiters_case(eng, "", 0, 3, 1, 1, 0, 0, pre=base + d)); add(waiters_case(eng, "", 0, 2, 0, 0, 0, 1, pre=base + d))
                    add(mutex_case(eng, "", [0, 0, 1], [0], pre=base + d))
        add(rounds_case(eng, "", 0, 70, 1)); add(rounds_case(eng, "", 0, 40, 0))
        if not quick:
            add(rounds_case(eng, "", 0, 300, 0)); add(rounds_case(eng, "", 0, 300, 1))
        # deque map growth: queue spanning three nodes when the finish node reaches the end of the 8-entry map
        add(waiters_case(eng, "", 0, 195, 0, 0, 0, 0, pre=130))
        # ... the same reached with one handle per suspend point: 195 coroutine starts queued behind each other
        add(waiters_case(eng, "", 0, 195, 0, 0, 0, 0, pre=130, mode=2))
        add(Case(eng, "", [[31] for _ in range(130)] + [[11, 0, 500 + i, 2] for i in range(195)] + [[31]] + [[14, 0, 0, 0], [31]] * 196))
        add(waiters_case(eng, "", 0, 140, 0, 0, 0, 0, pre=255, post_pause=True))
    # random programs
    nrand = 360 if quick else 5000
    for i in range(nrand):
        eng = ENGINES[i % 4]
        pre = 0
        if eng[2] == '1' and rng.random() < 0.4:
            pre = rng.choice([40, 55, 60, 62, 63, 100, 120, 125, 126, 127])
        c = gen_random(rng, eng, "g%d" % i, rng.randint(5, 60 if quick else 90), pre)
        cases.append(c)
    return cases


def _fields(line):
    try:
        return [int(x) for x in line.split()]
    except ValueError:
        return None


def deque_component(case):
    """per step (allocs, bytes, frees, bytes) of the ready-queue deque alone, from the extracted model (engine al??q)"""
    p = os.path.join(vlib.BUILD, "alq_%d.txt" % os.getpid())
    os.makedirs(vlib.BUILD, exist_ok=True)
    vlib.write_cases([Case(case.engine + "q", "q", case.ops)], p)
    try:
        lines = vlib.modelrun(p).get("q", [])
    finally:
        os.remove(p)
    return [_fields(l) for l in lines]


def first_diff(impl_obs, model_obs):
    for i, (a, b) in enumerate(zip(impl_obs, model_obs)):
        if a != b:
            return i
    return min(len(impl_obs), len(model_obs)) if len(impl_obs) != len(model_obs) else -1


def signature(case, impl_obs, model_obs):
    last = impl_obs[-1] if impl_obs else ""
    if last.startswith("CRASH"):
        return "%s:%s" % (case.engine, last.split()[1] if len(last.split()) > 1 else "crash")
    if last in ("HANG", "MISSING", "SKIPPED"):
        return "%s:%s" % (case.engine, last)
    if case.engine.startswith("alx"):
        return "%s:scenario-threads-allocated-other-than-frames" % case.engine
    coro = case.engine[2] == '1'
    # The known finding: in coroutine mode the per-thread ready queue (std::deque) allocates one 512-byte node at every
    # 64th push_back and frees one at every 64th pop_front, exactly where the model's cursor says, and NOTHING else differs
    # from the model (whose other costs are proved to be the frames and the documented suspend point arrays).
    if coro and impl_obs == model_obs:
        dq = [d for d in deque_component(case) if d and any(d)]
        if dq and all(d[1] == 512 * d[0] and d[3] == 512 * d[2] for d in dq):
            return "coro-mode:ready-queue-deque:node-512B-every-64th-enqueue"
        if dq:
            return "coro-mode:ready-queue-deque:node-512B+map-growth"
        return "%s:trace-rejected-by-oracle" % case.engine
    i = first_diff(impl_obs, model_obs)
    if i < 0:
        return "%s:trace-rejected-by-oracle" % case.engine
    op = case.ops[i] if i < len(case.ops) else []
    a = _fields(impl_obs[i]) if i < len(impl_obs) else None
    b = _fields(model_obs[i]) if i < len(model_obs) else None
    # coarse on purpose (one replay per engine / op kind / what is off), the replay file carries the numbers
    what = "?"
    if a and b and len(a) >= 9 and len(b) >= 9:
        what = "frames" if a[3:5] != b[3:5] else ("other-allocations" if a[5:9] != b[5:9] else "behaviour")
    return "%s:op%s:%s-differ-from-model" % (case.engine, op[0] if op else "?", what)


def gen_xcell(seed, tier):
    """C01/C02 scenarios (tools/props/cellcommon.py), non-allocating payload types, re-targeted at the cross-check engines"""
    from props import cellcommon
    m = {"cell_int": "alxc_int", "cell_void": "alxc_void", "cell_ref": "alxc_ref", "cell_cnt": "alxc_cnt"}
    quota = 150 if tier == "quick" else 1500
    out = []
    for focus in ("waiters", "resolvers"):
        # WHITELIST: only scenarios built entirely from thread kinds whose cost the C20 cross-check model carries
        # (AllocDefs.cell_allocs: resolver kinds 0..7, waiter kinds 0..5, schedule line); anything else is skipped
        def known(c):
            for o in c.ops:
                if not o: continue
                if o[0] == 1 and len(o) == 3 and 0 <= o[1] <= 7: continue
                if o[0] == 2 and len(o) == 2 and 0 <= o[1] <= 5: continue
                if o[0] == 9: continue
                return False
            # at most three coroutine waiters: more can put a 4th handle into the resolver's suspend point (a documented
            # allocation whose occurrence depends on the schedule: that is C20's sequential part, not this cross-check)
            return sum(1 for o in c.ops if len(o) == 2 and o[0] == 2 and o[1] in (0, 4)) <= 3
        cs = [c for c in cellcommon.gen(seed, "quick" if tier == "quick" else "thorough", focus) if c.engine in m and known(c)]
        for c in cs[:quota]:
            out.append(Case(m[c.engine], "x" + focus[0] + c.name, c.ops))
    return out


def gen_xmutex(seed, tier):
    from props import mutexcommon
    cs = mutexcommon.gen(seed, "quick" if tier == "quick" else "thorough", "mutex")
    # WHITELIST as in gen_xcell: contender declarations `1 kind (acq rel)*` with the kinds / styles AllocDefs.mutex_decl_allocs
    # knows, and schedule lines; a malformed declaration is ignored by that harness and costs nothing in the model
    def known(c):
        for o in c.ops:
            if not o: continue
            if o[0] == 9: continue
            if o[0] == 1 and len(o) >= 2 and o[1] in (0, 1) and all(0 <= a <= 1 for a in o[2::2]) and all(0 <= r <= 2 for r in o[3::2]): continue
            if o[0] == 1 and (len(o) < 2 or (len(o) - 2) % 2): continue      # rejected by parse_decl: no thread at all
            return False
        return True
    cs = [c for c in cs if c.engine == "mx" and known(c)]
    return [Case("alxm", "xm" + c.name, c.ops) for c in cs[:(200 if tier == "quick" else 2000)]]


def obs_equal(case, model_obs, impl_obs):
    if case.engine.startswith("alx") and impl_obs == []:
        return True      # deadlocked schedule (process restarted by the scenario harness): C02 / C07 judge that
    return model_obs == impl_obs


def nontrivial(case, model_obs):
    if case.engine.startswith("alx"):
        a = _fields(model_obs[0]) if model_obs else None
        return bool(a) and len(a) == 2 and a[1] >= 1
    for l in model_obs:
        a = _fields(l)
        if a and a[0] == 0 and len(a) > 9:
            return True
    return False


PARTS = [{"name": "seq_alloc", "harness": "seq_alloc.cpp", "gen": gen, "timeout_case": 30},
         {"name": "xalloc_cell", "harness": "xalloc_cell.cpp", "gen": gen_xcell, "timeout_case": 20},
         {"name": "xalloc_mutex", "harness": "xalloc_mutex.cpp", "gen": gen_xmutex, "timeout_case": 20}]
