"""C20 — the core synchronisation primitives never allocate (future/promise, awaiter chains, mutex, suspend_point,
synchronous generator steps; only coroutine frames are allocated, none under a non-heap storage)."""
import os, random
import vlib
from vlib import Case

RULE = ("programs over future create/get_promise/await (coroutine, blocking thread, callback awaiter)/resolve (value, "
        "exception, drop, ~promise; suspend point discarded, co_awaited or kept)/destroy, mutex try_lock/lock (3 waiter "
        "kinds)/unlock hand-over, suspend point variables, generator steps (sync, future, co_await), pause; normal and "
        "coroutine mode, heap and pooled frames; aimed at 0..3 vs 4+ handles, 1..5 waiters per kind, 1..6 mutex waiters, "
        "enqueue counts around 63/64/65/127/128/129 and deque map growth; non-trivial = at least one waiter is resumed / "
        "granted the lock in the model run; distinct = distinct op list")
SCOPE = ("allocation and free counts and bytes per step of future.h/awaiter.h/mutex.h/suspend_point.h/generator.h/"
         "coro_queue.h/async.h operations, split into coroutine frames and everything else")
ASSUMPTIONS = ["payload types are int and void; the exception payload is created before the measured region",
               "each case starts with a freshly constructed thread-local deque (cursor at the start of its first node), "
               "as on a thread whose first touch of the ready queue was the warm-up",
               "blocking waits are executed by helper threads that are parked at the library's flag-wait hook; "
               "thread creation is outside the measured region",
               "libstdc++ (g++ 12) std::deque layout: 512-byte nodes, initial map of 8"]
TRUSTED_EXTRA = ["replaced global operator new/delete with a 16-byte size/tag header (harness/seq_alloc.cpp)"]

NF, NM, NG, NS, NH, NC = 8, 4, 4, 4, 6, 32
ENGINES = ("al0h", "al1h", "al0s", "al1s")


class Sim:
    """light bookkeeping so that generated ops are mostly valid (NOT an oracle: nothing here is compared)"""
    def __init__(self, coro):
        self.coro = coro
        self.fst = [0] * NF
        self.chain = [[] for _ in range(NF)]     # (kind, idx)
        self.ref = [0] * NF                      # queued / held coroutine readers of a ready future
        self.mst = [0] * NM
        self.mq = [[] for _ in range(NM)]
        self.gens = [None] * NG
        self.slots = [[] for _ in range(NS)]     # items ('f', f) / ('m', m)
        self.rq = []
        self.hbusy = [False] * NH
        self.cbusy = [False] * NC
        self.enq = 0
        self.wid = 0
        self.frames = 0

    def fresh(self):
        self.wid += 1
        return self.wid

    def run_items(self, items):
        for k, o in items:
            if k == 'f':
                self.ref[o] -= 1
            else:
                self.mst[o] = 1

    def drain(self, first, pushed):
        self.enq += len(pushed) + 1
        order = first + self.rq + pushed
        self.rq = []
        self.run_items(order)

    def dispose(self, items, how, s):
        if how == 2:
            self.slots[s] += items
        elif not self.coro:
            self.run_items(items)
        elif how == 0:
            self.rq += items
            self.enq += len(items)
        elif items:
            self.drain([items[-1]], items[:-1])


def gen_random(rng, engine, name, nops, aim_pre):
    coro = engine[2] == '1'
    S = Sim(coro)
    ops = []
    for _ in range(aim_pre):
        ops.append([31])
        S.enq += 1
    def hows():
        r = rng.random()
        if coro:
            return 0 if r < 0.45 else (1 if r < 0.85 else 2)
        return 0 if r < 0.8 else 2
    for _ in range(nops):
        if len(S.rq) > 100 or S.frames > 200:
            if coro:
                ops.append([31]); S.drain([], [])
            continue
        r = rng.random()
        if r < 0.12:
            dead = [f for f in range(NF) if S.fst[f] == 0]
            if dead:
                f = rng.choice(dead)
                ops.append([1, f, rng.choice([0, 0, 1])]); S.fst[f] = 1
                if rng.random() < 0.9:
                    ops.append([2, f]); S.fst[f] = 2
            continue
        if r < 0.42:
            fs = [f for f in range(NF) if S.fst[f] in (2, 3)]
            if not fs: continue
            f = rng.choice(fs)
            burst = rng.choice([1, 1, 1, 2, 3, 4, 5])
            for _ in range(burst):
                k = rng.choice([0, 0, 0, 1, 2])
                if k == 0:
                    mode = 1 if (coro and rng.random() < 0.25) else 0
                    ops.append([3, f, S.fresh(), mode]); S.frames += 1
                    if S.fst[f] == 2: S.chain[f].append((0, 0))
                    if mode == 1: S.drain([], [])
                elif k == 1:
                    free = [t for t in range(NH) if not S.hbusy[t]]
                    if not free: continue
                    t = rng.choice(free)
                    ops.append([4, f, t])
                    if S.fst[f] == 2: S.chain[f].append((1, t)); S.hbusy[t] = True
                else:
                    free = [c for c in range(NC) if not S.cbusy[c]]
                    if not free: continue
                    c = rng.choice(free)
                    ops.append([5, f, c])
                    if S.fst[f] == 2: S.chain[f].append((2, c)); S.cbusy[c] = True
            continue
        if r < 0.60:
            fs = [f for f in range(NF) if S.fst[f] == 2]
            if not fs: continue
            f = rng.choice(fs)
            kind = rng.choice([0, 0, 0, 1, 2, 3])
            how = 0 if kind == 3 else hows()
            s = rng.randrange(NS)
            ops.append([6, f, kind, how, s, rng.randrange(1, 1000)])
            S.fst[f] = 3
            items = []
            for k, i in S.chain[f]:
                if k == 0: items.append(('f', f)); S.ref[f] += 1
                elif k == 1: S.hbusy[i] = False
                else: S.cbusy[i] = False
            S.chain[f] = []
            S.dispose(items, how, s)
            continue
        if r < 0.66:
            fs = [f for f in range(NF) if S.fst[f] in (1, 3)]
            if fs:
                f = rng.choice(fs)
                ops.append([7, f])
                if S.ref[f] == 0: S.fst[f] = 0
            continue
        if r < 0.80:
            m = rng.randrange(NM)
            k = rng.choice([0, 0, 1, 2, 3])
            if k == 3:
                ops.append([10, m])
                if S.mst[m] == 0: S.mst[m] = 1
            elif k == 0:
                mode = 1 if (coro and rng.random() < 0.25) else 0
                ops.append([11, m, S.fresh(), mode]); S.frames += 1
                if S.mst[m] == 0: S.mst[m] = 1
                else: S.mq[m].append((0, 0))
                if mode == 1: S.drain([], [])
            elif k == 1:
                free = [t for t in range(NH) if not S.hbusy[t]]
                if not free: continue
                t = rng.choice(free)
                ops.append([12, m, t])
                if S.mst[m] == 0: S.mst[m] = 1
                else: S.mq[m].append((1, t)); S.hbusy[t] = True
            else:
                free = [c for c in range(NC) if not S.cbusy[c]]
                if not free: continue
                c = rng.choice(free)
                ops.append([13, m, c])
                if S.mst[m] == 0: S.mst[m] = 1
                else: S.mq[m].append((2, c)); S.cbusy[c] = True
            continue
        if r < 0.90:
            ms = [m for m in range(NM) if S.mst[m] == 1]
            if not ms: continue
            m = rng.choice(ms)
            how = hows(); s = rng.randrange(NS)
            ops.append([14, m, how, s])
            if not S.mq[m]:
                S.mst[m] = 0
                S.dispose([], how, s)
            else:
                k, i = S.mq[m].pop(0)
                if k == 0:
                    S.mst[m] = 2
                    S.dispose([('m', m)], how, s)
                else:
                    S.mst[m] = 1
                    if k == 1: S.hbusy[i] = False
                    else: S.cbusy[i] = False
                    S.dispose([], how, s)
            continue
        if r < 0.94:
            g = rng.randrange(NG)
            if S.gens[g] is None:
                ops.append([20, g, rng.randrange(0, 5)]); S.gens[g] = 1
            elif rng.random() < 0.8:
                ops.append([21, g, rng.choice([0, 1, 2] if coro else [0, 1])])
            else:
                ops.append([22, g]); S.gens[g] = None
            continue
        if r < 0.97:
            s = rng.randrange(NS)
            how = 1 if (coro and rng.random() < 0.5) else 0
            ops.append([30, s, how])
            items, S.slots[s] = S.slots[s], []
            S.dispose(items, how, 0)
            continue
        if coro:
            ops.append([31]); S.drain([], [])
        else:
            ops.append([rng.choice([31, 99])])    # rejected in normal mode / unknown opcode
    if rng.random() < 0.1:
        ops.insert(rng.randrange(len(ops) + 1), rng.choice([[6, 9, 0, 0, 0, 1], [3, 0], [14, 0, 5, 0], [4, 0, 7], [1, 0, 2], [21, 3, 7]]))
    return Case(engine, name, ops)


def waiters_case(engine, name, f, ncoro, nsync, ncb, kind, how, ty=0, pre=0, post_pause=True):
    coro = engine[2] == '1'
    ops = [[31]] * pre if coro else []
    ops = [list(o) for o in ops]
    ops += [[1, f, ty], [2, f]]
    seq = [0] * ncoro + [1] * nsync + [2] * ncb
    # deterministic interleaving of the kinds
    seq = sorted(range(len(seq)), key=lambda i: (i * 7) % 5)
    kinds = ([0] * ncoro + [1] * nsync + [2] * ncb)
    t = c = 0
    w = 10
    for i in seq:
        k = kinds[i]
        if k == 0:
            ops.append([3, f, w, 0]); w += 1
        elif k == 1:
            ops.append([4, f, t]); t += 1
        else:
            ops.append([5, f, c]); c += 1
    ops.append([6, f, kind, how, 1, 77])
    if how == 2:
        ops.append([30, 1, 1 if coro else 0])
    if coro and post_pause:
        ops.append([31])
    ops.append([7, f])
    return Case(engine, name, ops)


def mutex_case(engine, name, kinds, hows, pre=0):
    coro = engine[2] == '1'
    ops = [[31] for _ in range(pre)] if coro else []
    ops.append([10, 0])
    w, t, c = 30, 0, 0
    for k in kinds:
        if k == 0:
            ops.append([11, 0, w, 0]); w += 1
        elif k == 1:
            ops.append([12, 0, t]); t += 1
        else:
            ops.append([13, 0, c]); c += 1
    ops.append([10, 0])      # try_lock on a contended mutex
    for i in range(len(kinds) + 1):
        how = hows[i % len(hows)]
        if how == 1 and not coro: how = 0
        ops.append([14, 0, how, 2])
        if how == 2:
            ops.append([30, 2, 0])
        if coro:
            ops.append([31])
    ops.append([10, 0]); ops.append([14, 0, 0, 0])
    return Case(engine, name, ops)


def rounds_case(engine, name, pre, rounds, how):
    """coroutine mode steady state: `pre` pauses, then rounds of resolve + (co_await | discard + pause)"""
    ops = [[31] for _ in range(pre)]
    for i in range(rounds):
        ops += [[1, 0, 0], [2, 0], [3, 0, 100 + i, 0], [6, 0, 0, how, 0, i]]
        if how == 0:
            ops.append([31])
        ops.append([7, 0])
    return Case(engine, name, ops)


def witness_ops():
    """the program of Coq's c20_zero_alloc_refuted, printed by the extracted model itself (engine alw)"""
    p = os.path.join(vlib.BUILD, "alw_%d.txt" % os.getpid())
    os.makedirs(vlib.BUILD, exist_ok=True)
    with open(p, "w") as f:
        f.write("CASE alw w\nEND\n")
    try:
        lines = vlib.modelrun(p).get("w", [])
    finally:
        os.remove(p)
    return [[int(x) for x in l.split()] for l in lines]


def gen(seed, tier):
    rng = random.Random(seed * 104729 + 20)
    cases = []
    b = [0]
    def add(c):
        c.name = "d%d" % b[0]; b[0] += 1
        cases.append(c)
    quick = tier == "quick"
    w = witness_ops()
    if w:
        add(Case("al1h", "w", w)); add(Case("al1s", "w", w)); add(Case("al0h", "w", w))
    # 0..3 vs 4 handles (and the doubling boundaries 6/7, 12/13), every way of disposing, both modes
    for eng in ENGINES:
        coro = eng[2] == '1'
        for nco in (0, 1, 2, 3, 4, 5, 6, 7, 12, 13):
            for how in ((0, 1, 2) if coro else (0, 2)):
                if quick and eng[3] == 's' and nco > 5: continue
                add(waiters_case(eng, "", 0, nco, 0, 0, 0, how))
        # 1..5 waiters of each kind, all resolution kinds
        for k in range(1, 6):
            for kind in (0, 1, 2, 3):
                how = 0 if kind == 3 else (k % 3 if coro else (k % 2) * 2)
                add(waiters_case(eng, "", k % NF, k if kind != 1 else 3, k, k, kind, how, ty=k % 2))
        add(waiters_case(eng, "", 1, 3, 5, 5, 0, 0)); add(waiters_case(eng, "", 1, 0, 5, 0, 1, 0)); add(waiters_case(eng, "", 1, 0, 0, 5, 2, 0, ty=1))
        # contended mutex with 1..6 waiters
        for nw in range(0, 7):
            add(mutex_case(eng, "", [0] * nw, [0]))
            add(mutex_case(eng, "", [(i * 2 + nw) % 3 for i in range(nw)], [0, 1, 2]))
            if not quick or nw in (1, 6):
                add(mutex_case(eng, "", [1] * min(nw, NH), [1, 0])); add(mutex_case(eng, "", [2] * nw, [2, 0]))
    # ready-queue cursor around the node boundaries
    for eng in ("al1h", "al1s"):
        for base in (64, 128) + (() if quick else (192, 256, 320)):
            for d in (-3, -2, -1, 0, 1):
                add(rounds_case(eng, "", base + d, 3, 1)); add(rounds_case(eng, "", base + d, 3, 0))
                if not quick or d in (-1, 0):
                    add(waiters_case(eng, "", 0, 3, 1, 1, 0, 0, pre=base + d)); add(waiters_case(eng, "", 0, 2, 0, 0, 0, 1, pre=base + d))
                    add(mutex_case(eng, "", [0, 0, 1], [0], pre=base + d))
        add(rounds_case(eng, "", 0, 70, 1)); add(rounds_case(eng, "", 0, 40, 0))
        if not quick:
            add(rounds_case(eng, "", 0, 300, 0)); add(rounds_case(eng, "", 0, 300, 1))
        # deque map growth: queue spanning three nodes when the finish node reaches the end of the 8-entry map
        add(waiters_case(eng, "", 0, 195, 0, 0, 0, 0, pre=130))
        add(waiters_case(eng, "", 0, 140, 0, 0, 0, 0, pre=255, post_pause=True))
    # random programs
    nrand = 360 if quick else 5000
    for i in range(nrand):
        eng = ENGINES[i % 4]
        pre = 0
        if eng[2] == '1' and rng.random() < 0.4:
            pre = rng.choice([40, 55, 60, 62, 63, 100, 120, 125, 126, 127])
        c = gen_random(rng, eng, "g%d" % i, rng.randint(5, 60 if quick else 90), pre)
        cases.append(c)
    return cases


def _fields(line):
    try:
        return [int(x) for x in line.split()]
    except ValueError:
        return None


def nontrivial(case, model_obs):
    for l in model_obs:
        a = _fields(l)
        if a and a[0] == 0 and len(a) > 9:
            return True
    return False


FRAME_OPS = {3: 1, 11: 1, 20: 1}


def offending(case, obs):
    """accepted steps of an observed trace that break the property: (index, op, fields, frames_ok)"""
    heap = case.engine[3] != 's'
    out = []
    for i, (op, l) in enumerate(zip(case.ops, obs)):
        a = _fields(l)
        if not a or a[0] != 0 or len(a) < 9:
            continue
        exp_frames = FRAME_OPS.get(op[0], 0) if (heap and op) else 0
        frames_ok = a[3] == exp_frames and (heap or a[4] == 0)
        other = a[2] <= 3 and (a[5] or a[6] or a[7] or a[8])
        if not frames_ok or other:
            out.append((i, op, a, frames_ok))
    return out


def signature(case, impl_obs, model_obs):
    last = impl_obs[-1] if impl_obs else ""
    if last.startswith("CRASH"):
        return "%s:%s" % (case.engine, last.split()[1] if len(last.split()) > 1 else "crash")
    if last in ("HANG", "MISSING"):
        return "%s:%s" % (case.engine, last)
    bad = offending(case, impl_obs)
    coro = case.engine[2] == '1'
    # The known finding: in coroutine mode the per-thread ready queue (std::deque) allocates one 512-byte node at every
    # 64th push_back and frees one at every 64th pop_front, exactly where the model's cursor says, and nothing else differs.
    if coro and bad and impl_obs == model_obs and all(fr for (_, _, _, fr) in bad):
        if all(a[6] == 512 * a[5] and a[8] == 512 * a[7] for (_, _, a, _) in bad):
            return "coro-mode:ready-queue-deque:node-512B-every-64th-enqueue"
        return "coro-mode:ready-queue-deque:node-512B+map-growth"
    if not bad:
        return "%s:trace-rejected-by-oracle" % case.engine
    i, op, a, fr = bad[0]
    what = "frames" if not fr else "other"
    return "%s:op%d:%s:fa=%d,ff=%d,oa=%d/%dB,of=%d/%dB%s" % (case.engine, op[0] if op else -1, what, a[3], a[4], a[5], a[6], a[7], a[8],
                                                            "" if impl_obs == model_obs else ":differs-from-model")


PARTS = [{"name": "seq_alloc", "harness": "seq_alloc.cpp", "gen": gen, "timeout_case": 30}]
