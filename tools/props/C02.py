"""C02 — no lost, early or duplicate wake-up of a future's waiters (future.h, awaiter.h)."""
from props import cellcommon
RULE = ("part ctl_cell: controlled schedules (real threads, one runnable at a time, yield at every COCLS_VERIF_POINT) of 0-2 resolvers "
        "(value / exception / drop / move-then-destroy incl. death by stack unwinding / completion of an async coroutine by co_return or by exception / a coroutine doing co_await promise(v)) plus the final "
        "destructor of the shared promise against 1-3 waiters of every kind (coroutine co_await f, thread in sync()+value(), callback awaiter "
        "whose context deletes itself, thread in has_value(), coroutine co_await f.has_value(), call_fn_future_awaiter), every 6th case 4-6 coroutine waiters against a handle-popping resolver; value types int, void, unique_ptr<int>, long&, "
        "instance-counted; random, bursty and last-first schedules; thorough adds EVERY schedule of 2 waiters (all 15 kind pairs) x 1 resolver "
        "(7 kinds incl. none = destructor resolves), enumerated by the extracted model (cell_enum). part stress_cell: the same cell under real "
        "uncontrolled threads (3000 / 30000 trials per configuration, really blocking waiters), oracle = counters lost/dup/wrong/early all zero. "
        "part seq_aw: RE-USED awaiter objects: op sequences (3-25 ops + 6% malformed) in which 2 hand-written awaiters (co_awaiter::subscribe + resume when refused) "
        "and 2 call_fn_future_awaiters wait repeatedly on 3 external futures / their internal futures that are already resolved or pending, futures re-created "
        "in between, promises called with value / exception / drop, plus the 2x2x2x2 matrix (style x resolved|pending for three consecutive waits); "
        "non-trivial there = some awaiter object answered at least two waits. "
        "part seq_prom (shared with C01): promise objects overwritten by move assignment / destroyed (also by stack unwinding) / dropped / bound while callback and "
        "coroutine waiters are parked on their futures: the release is observed in the line of that very op. "
        "non-trivial = at least 3 thread switches in the executed trace; distinct = distinct (threads, schedule)")
SCOPE = ("promise::claim/set_value/set_exception/drop/~promise/move ctor, future::set/resolve/value/has_value, awaiter::resume_chain_set_ready/"
         "resume_chain_lk/subscribe_check_ready, co_awaiter await_ready/await_suspend/await_resume/sync, sync_awaiter, awaitable_bool, "
         "async::start(promise&)/async_promise::final_awaiter, call_fn_future_awaiter::operator<<, co_awaiter::subscribe(awaiter*), future::operator<< / result_of")
ASSUMPTIONS = ["the destructor of the shared promise object runs after every call on that object has returned (C++ object lifetime)",
               "interleaving at the granularity of the hook points (each atomic operation on promise::_owner / future::_awaiter is its own step); sequentially consistent",
               "sync_awaiter::wakeup (flag.store + flag.notify_all) and std::atomic::wait are one level-triggered step in the model; their real interplay is exercised only by the stress part",
               "a callback awaiter's context is freed inside its callback, a coroutine's awaiter dies when the coroutine resumes (harness scenario recorded as EFree events)"]
def gen(seed, tier): return cellcommon.gen(seed, tier, "waiters")
def gen_stress(seed, tier): return cellcommon.gen_stress(seed, tier)
def gen_aw(seed, tier): return cellcommon.gen_aw(seed, tier)
def gen_promw(seed, tier): return cellcommon.gen_prom(seed + 1000, tier, waiters=True)
nontrivial = cellcommon.nontrivial
signature = cellcommon.signature
PARTS = [{"name": "ctl_cell", "harness": "ctl_cell.cpp", "gen": gen, "no_shrink": False, "timeout_case": 10},
         {"name": "seq_aw", "harness": "seq_aw.cpp", "gen": gen_aw, "no_shrink": False, "timeout_case": 10},
         {"name": "seq_prom", "harness": "seq_prom.cpp", "gen": gen_promw, "no_shrink": False, "timeout_case": 10},
         {"name": "stress_cell", "harness": "stress_cell.cpp", "gen": gen_stress, "no_shrink": True, "timeout_case": 30}]
