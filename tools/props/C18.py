"""C18 — callback adapters fire exactly once with the right outcome (callback_awaiter.h, future.h, future_conv.h)."""
import itertools, random
from vlib import Case

RULE = ("every adapter (callback_await / callback_await_alloc, make_promise, discard, future_conv, call_fn_future_awaiter) x outcome "
        "(value / exception / dropped promise) x timing (future constructed ready; resolved inside the init function before the "
        "registration; promise parked and resolved by a second thread under a controlled schedule = before / during / after the "
        "registration; resolved later by the registering thread) x helper storage (heap / counting storage / cocls::reusable_storage / "
        "second of two trailer-tagged counting storages / cocls::reusable_storage_mtsafe) x future type (future<counted>, future<void>, "
        "factory returning future<counted&>) x caller mode (plain thread / coro_queue active) x converter (all six future_conv "
        "specialisations; returns / throws / resolves with an exception / declines / forwards the promise to a third thread) x optional "
        "competing resolver on a third thread (value / exception / p(drop)) x optional re-arming call_fn_future_awaiter handler whose second "
        "operation a third thread resolves; engine adapt* = real threads, one runnable at a time, "
        "yield at every COCLS_VERIF_POINT; engine adseq* = the same scenarios without the controller on one fresh thread; random, bursty, "
        "resolver-first and registrar-first schedules, thorough adds every schedule prefix of length 8-11 for the two-thread "
        "configurations and every prefix of length 7 over three threads for the competitor; non-trivial = valid configuration and "
        "(single-threaded timing, or at least 2 thread switches in the executed trace); distinct = distinct (engine, configuration, schedule)")
SCOPE = ("callback_await/callback_await_alloc + callback_await_coro (value and void), future_with_cb/make_promise (heap and storage), "
         "discard, future_conv_promise_base::operator<< + all future_conv resume functions, call_fn_future_awaiter, custom_allocator_base "
         "operator new/delete with five storages, over promise::claim/set/p(drop)/~promise, future::resolve, future<T&> ready-made and "
         "promise-resolved, awaiter::subscribe_check_ready/resume_chain_lk, co_awaiter::await_ready/await_suspend, suspend_point discard "
         "in normal and coroutine mode")
ASSUMPTIONS = ["one registration per future; at most two resolvers (the promise holder and one competitor); the source future has at most one subscriber",
               "interleaving at the granularity of the hook points, sequentially consistent (memory order is C03)",
               "callbacks read the future with value(), not wait(); user callbacks other than callback_await's do not throw (they run inside noexcept resume functions)",
               "per-case leak attribution by the harness's own new/delete balance (line 41) and the scenario counters (line 40); LeakSanitizer's exit report is switched off for this harness"]

ADAPTERS = [0, 1, 2, 3, 4]
TYPES = ["", "v", "r"]          # future<counted>, future<void>, factory returns future<counted&>


def valid(ad, mode, stor):
    if stor != 0 and ad > 1: return False
    if ad == 1 and mode < 2: return False
    return True


def configs():
    out = []
    for ad in ADAPTERS:
        for mode in range(4):
            for stor in range(5):
                if valid(ad, mode, stor):
                    out.append((ad, mode, stor))
    return out


def mk(engine, name, ad, mode, stor, k, d, conv, sched, cbthrow=0, k2=None, re=None):
    ops = [[1, ad, mode, stor], [2, k, d]]
    if conv is not None:
        ops.append([3] + list(conv))
    if cbthrow:
        ops.append([4, 1])
    if k2 is not None:
        ops.append([5, k2[0], k2[1]])
    if re is not None:
        ops.append([6, re[0], re[1]])
    if engine.startswith("adapt"):
        ops.append([9] + list(sched))
    return Case(engine, name, ops)


def rand_conv(rng, ty, ad, always=False):
    """[ckind, cdatum(, spec)]; spec 3 = the converter is handed the promise and may also resolve it with an exception (2),
    decline (3: the outer future must complete as a broken promise) or forward it to thread 2 (4)"""
    if ad != 3 and not (always or rng.random() < 0.1):
        return None
    spec = rng.choice([0, 3, 3] if ty == "v" else [0, 1, 2, 3, 3, 3, 4, 4])
    if spec == 3:
        return [rng.choice([0, 1, 2, 3, 3, 4, 4]), rng.randint(1, 50), 3]
    cv = [rng.choice([0, 0, 1]), rng.randint(1, 50)]
    return cv + [spec] if rng.random() < 0.8 else cv


def nthreads(conv, k2, re=None):
    return 3 if (k2 is not None or re is not None or (conv is not None and conv[0] == 4)) else 2


def rand_sched(rng, L, nthr=2):
    style = rng.random()
    hi = nthr - 1
    if style < 0.45:
        return [rng.randint(0, hi) for _ in range(L)]
    if style < 0.7:     # bursts: one thread runs for a while (exposes the windows between two hook points)
        s = []
        while len(s) < L:
            s += [rng.randint(0, hi)] * rng.randint(1, 5)
        return s[:L]
    if style < 0.85:    # resolver first, registrar late
        n = rng.randint(0, 8)
        return [0] * n + [rng.randint(1, hi) if hi > 1 else 1 for _ in range(L - n)]
    n = rng.randint(0, L)   # registrar up to some point, then the resolver(s) to the end
    return [0] * n + [1] * rng.randint(1, 12) + [rng.randint(0, hi) for _ in range(4)]


def gen_ctl(seed, tier):
    rng = random.Random(seed * 1000003 + 1818)
    cases = []
    j = 0
    # every single-threaded configuration once per outcome and value type; plain and coroutine-mode callers alternate
    for (ad, mode, stor) in configs():
        if mode == 2: continue
        for k in (0, 1, 2):
            for ty in TYPES:
                if tier == "quick" and stor in (2, 3, 4) and ty != TYPES[(ad + mode + k + stor) % 3]: continue
                co = "c" if (j % 2) else ""
                cv = rand_conv(rng, ty, ad, True) if ad == 3 else None
                cases.append(mk("adapt" + co + ty, "s%d" % j, ad, mode, stor, k, rng.randint(1, 999), cv,
                                rand_sched(rng, 10, 3) if (cv and cv[0] == 4) else [])); j += 1
                if ad == 3 and ty != "v":   # a converter returning a reference: the outer future<To&> must refer to the converter's object
                    cases.append(mk("adapt" + co + ty, "s%d" % j, ad, mode, stor, k, rng.randint(1, 999), [rng.choice([0, 0, 1]), rng.randint(1, 50), 4], [])); j += 1
                if ad == 3:      # every behaviour of the promise-passing converter for every timing and outcome
                    for b in (2, 3, 4):
                        cases.append(mk("adapt" + co + ty, "s%d" % j, ad, mode, stor, k, rng.randint(1, 999), [b, rng.randint(1, 50), 3],
                                        rand_sched(rng, 10, 3) if b == 4 else [])); j += 1
    # callback_await with a callback that throws after doing its work: still exactly one invocation
    for mode in range(4):
        for stor in (0, 1, 3):
            for k in (0, 1, 2):
                ty = TYPES[(mode + stor + k) % 3]
                cases.append(mk("adapt" + ty, "t%d" % j, 0, mode, stor, k, rng.randint(1, 999), None,
                                rand_sched(rng, 14) if mode == 2 else [], cbthrow=1)); j += 1
    # call_fn_future_awaiter whose handler re-arms the awaiter with an operation that is still pending when it returns:
    # the handler must run once per awaited operation
    reps = 2 if tier == "quick" else 12
    for mode in range(4):
        for k in (0, 1, 2):
            for k3 in (0, 1, 2):
                for r in range(reps if mode == 2 else 1):
                    ty = TYPES[(mode + k + k3 + r) % 3]
                    co = "c" if (j % 2) else ""
                    cases.append(mk("adapt" + co + ty, "e%d" % j, 4, mode, 0, k, rng.randint(1, 999), None,
                                    rand_sched(rng, rng.choice([8, 16, 24]), 3), re=(k3, rng.randint(1, 999)))); j += 1
    n = 400 if tier == "quick" else 6000
    two = [c for c in configs() if c[1] == 2]
    for i in range(n):
        ad, mode, stor = two[i % len(two)] if rng.random() < 0.8 else rng.choice(two)
        if rng.random() < 0.3: ad, stor = 3, 0     # the converter has the longest completion: more interleavings
        ty = rng.choice(TYPES)
        co = rng.choice(["", "", "c"])
        k = rng.choice([0, 0, 1, 2])
        k2 = None
        cv = rand_conv(rng, ty, ad)
        if rng.random() < 0.3 and not (cv is not None and cv[0] == 4):   # competing resolver on a third thread
            k2 = (rng.choice([0, 1, 2, 2]), rng.randint(1, 999))
        cases.append(mk("adapt" + co + ty, "c%d" % i, ad, 2, stor, k, rng.randint(1, 999), cv,
                        rand_sched(rng, rng.choice([0, 6, 12, 18, 26]), nthreads(cv, k2)), k2=k2))
    if tier != "quick":
        x = 0
        for (ad, mode, stor) in two:
            if stor in (1, 2): continue
            for k in (0, 1, 2):
                cvs = [(0, 7, 0), (1, 9, 3), (3, 4, 3), (4, 6, 3)] if ad == 3 else [None]
                for cv in cvs:
                    L = 11 if ad == 3 else 8
                    for pre in itertools.product(range(2), repeat=L):
                        if ad == 3 and k != 0 and cv[0] != 0 and pre[0] == 1: continue   # halves the least interesting families
                        ty = TYPES[x % 3]
                        cases.append(mk("adapt" + ty, "x%d" % x, ad, 2, stor, k, 5, cv, pre)); x += 1
        # competitor: all schedule prefixes over three threads (3^7) for the short adapters
        for ad in (0, 1, 4):
            for (k, k2) in ((0, (2, 0)), (2, (0, 9)), (1, (0, 9))):
                for pre in itertools.product(range(3), repeat=7):
                    cases.append(mk("adapt", "y%d" % x, ad, 2, 0, k, 5, None, pre, k2=k2)); x += 1
        for (k, k3) in ((0, 0), (0, 2), (1, 0)):      # re-arming handler: every schedule prefix of length 8 over three threads
            for pre in itertools.product(range(3), repeat=8):
                cases.append(mk("adapt", "z%d" % x, 4, 2, 0, k, 5, None, pre, re=(k3, 9))); x += 1
    # malformed stream
    bad = [[[1, 1, 0, 0], [2, 0, 1]], [[1, 2, 2, 1], [2, 0, 1]], [[1, 7, 2, 0], [2, 0, 1]], [[2, 0, 1]], [[1, 0, 2, 0]],
           [[1, 0, 4, 0], [2, 0, 1]], [[1, 0, 2, 0], [2, 3, 1]], [[1, 3, 2, 0], [2, 0, 1], [3, 2, 2]], [[1, 3, 2], [2, 0, 1]], [],
           [[1, 0, 2, 5], [2, 0, 1]], [[1, 0, 3, 0], [2, 0, 1], [5, 0, 1]], [[1, 0, 2, 0], [2, 0, 1], [5, 3, 1]],
           [[1, 3, 2, 0], [2, 0, 1], [3, 0, 2, 5]], [[1, 3, 2, 0], [2, 0, 1], [3, 3, 2, 0]], [[1, 3, 2, 0], [2, 0, 1], [3, 2, 2, 4]], [[1, 3, 2, 0], [2, 0, 1], [3, 2, 2]],
           [[1, 3, 2, 0], [2, 0, 1], [3, 4, 2, 3], [5, 0, 1]], [[1, 3, 2, 0], [2, 0, 1], [3, 5, 2, 3]],
           [[1, 0, 2, 0], [2, 0, 1], [6, 0, 1]], [[1, 4, 2, 0], [2, 0, 1], [5, 0, 1], [6, 0, 1]], [[1, 4, 2, 0], [2, 0, 1], [6, 3, 1]]]
    for b, ops in enumerate(bad):
        cases.append(Case("adapt", "m%d" % b, ops + [[9, 0, 1]]))
    cases.append(Case("adaptv", "m90", [[1, 3, 2, 0], [2, 0, 1], [3, 0, 2, 1], [9, 0]]))
    cases.append(Case("adaptv", "m91", [[1, 3, 2, 0], [2, 0, 1], [3, 0, 2, 4], [9, 0]]))
    return cases


def gen_seq(seed, tier):
    rng = random.Random(seed * 1000003 + 1819)
    cases = []
    j = 0
    reps = 1 if tier == "quick" else 3
    for _ in range(reps):
        for (ad, mode, stor) in configs():
            for k in (0, 1, 2):
                for ty in TYPES:
                    if tier == "quick" and ty != TYPES[(ad + mode + k + stor + 1) % 3]: continue
                    co = "c" if (j % 2) else ""
                    cv = rand_conv(rng, ty, ad, True) if ad == 3 else None
                    k2 = (rng.choice([0, 1, 2]), rng.randint(1, 99)) if (mode == 2 and rng.random() < 0.3 and not (cv and cv[0] == 4)) else None
                    cases.append(mk("adseq" + co + ty, "q%d" % j, ad, mode, stor, k, rng.randint(1, 999), cv, [], k2=k2)); j += 1
    for mode in range(4):
        for k in (0, 1, 2):
            cases.append(mk("adseq" + ("c" if k % 2 else "") + TYPES[(mode + k + 1) % 3], "qe%d" % j, 4, mode, 0, k, rng.randint(1, 999), None, [], re=((mode + k) % 3, rng.randint(1, 99)))); j += 1
    for mode in range(4):
        for k in (0, 1, 2):
            cases.append(mk("adseq" + TYPES[(mode + k) % 3], "qt%d" % j, 0, mode, mode % 2, k, rng.randint(1, 999), None, [], cbthrow=1)); j += 1
    cases.append(Case("adseq", "qm2", [[1, 0, 0, 0], [2, 0, 1], [4, 2]]))
    cases.append(Case("adseq", "qm0", [[1, 1, 1, 0], [2, 0, 1]]))
    cases.append(Case("adseq", "qm1", [[1, 4, 0, 1], [2, 0, 1]]))
    return cases


def gen(seed, tier):
    return gen_ctl(seed, tier)


def nontrivial(case, model_obs):
    if model_obs and model_obs[0].strip() == "-1":
        return False
    mode = case.ops[0][2] if case.ops and len(case.ops[0]) == 4 else -1
    if case.engine.startswith("adseq") or mode != 2:
        return True
    tids = [l.split()[0] for l in model_obs if len(l.split()) == 2]
    return sum(1 for a, b in zip(tids, tids[1:]) if a != b) >= 2


def signature(case, impl_obs, model_obs):
    ad = case.ops[0][1] if case.ops and len(case.ops[0]) > 1 and case.ops[0][0] == 1 else "x"
    last = impl_obs[-1] if impl_obs else ""
    if last.startswith("CRASH"):
        kind = last.split()[1]
    elif last == "HANG":
        kind = "HANG"
    elif any(l.startswith("777") for l in impl_obs):
        kind = "deadlock"
    else:
        kind = "oracle"
        if any(o and o[0] == 4 and o[1:] == [1] for o in case.ops) and sum(1 for l in impl_obs if l.startswith("30 ")) == 2:
            kind = "throwing-callback-invoked-twice"
        elif case.engine.endswith("r") and case.ops and len(case.ops[0]) == 4 and case.ops[0][2] == 0 and len(case.ops) > 1 and case.ops[1][:2] == [2, 0]:
            kind = "ready-reference-future-read-as-value"
        elif case.engine.endswith("v") and ad == 3 and len(case.ops) > 1 and case.ops[1][0] == 2 and case.ops[1][1] != 0:
            kind = "void-source-exception-swallowed"
    return "adapter%s:%s" % (ad, kind)


# leaks are attributed per case by the harness's own balance (line 41) and the counters (line 40), not by LeakSanitizer at exit
ENV = {"ASAN_OPTIONS": "detect_leaks=0:abort_on_error=0:halt_on_error=1:exitcode=77"}
PARTS = [{"name": "ctl_adapt", "harness": "ctl_adapt.cpp", "gen": gen_ctl, "timeout_case": 10, "env": ENV},
         {"name": "seq_adapt", "harness": "ctl_adapt.cpp", "gen": gen_seq, "timeout_case": 10, "env": ENV}]
