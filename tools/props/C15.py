"""C15 — Signal: every waiting listener gets every value; disconnect wakes all (signal.h, awaiter.h)."""
import os, random, tempfile
import vlib
from vlib import Case

RULE = ("op sequences over one signal<Val>/signal<void> state: spawn listener coroutines (limit / pause / retry scripts), connect "
        "callbacks (stay for `limit` calls), call the collector (by value, rvalue, lvalue reference; result discarded or co_awaited), "
        "copy/drop strong handles, driver pause; issued from ordinary code (sgn_*) and from a coroutine under the ready queue (sgc_*); "
        "boundary programs (0..7 listeners, inline->heap suspend point, last-handle drop with waiters, use after disconnect) + random "
        "disciplined sequences + a small stream of the known coroutine-mode discard overrun + malformed ops; every case closed by dropping "
        "all handles (and a final pause); non-trivial = some op delivers to >= 2 listeners or cancels a waiting coroutine; distinct = distinct op list. "
        "part ctl_signal (engine sx_i): controlled schedules of 1-4 subscriber threads (coroutine / blocking .wait() / connect / detached async) against one "
        "collector thread, yield at asub/apub/rchain/walk/flag wait; random, bursty, last-first schedules, thorough adds every schedule prefix of length 7 over 3 "
        "choices for 7 configurations; non-trivial = >= 3 thread switches and somebody taken. part stress_signal (engine sg_stress): REAL uncontrolled threads, 2-4 "
        "subscriber threads subscribing one-shot listeners / one-shot callbacks in a tight loop against one collector thread calling in a tight loop (every third "
        "round dropping the handle early), ~400k subscriptions per seed in quick, x10 in thorough; oracle on counts: lost = dup = wrong value = order violation = 0")
SCOPE = ("signal<T>::state/collector::operator() x3/emitter::await_suspend/await_resume/connect (Awt::resume, initial_reg), "
         "awaiter::subscribe/resume_chain/resume_chain_lk, suspend_point destructor/co_await, coro_queue ready queue and pause; "
         "hook_up_emitter is not modelled")
ASSUMPTIONS = ["one thread calls the collector and drops handles (the collector is documented as not MT-safe); the cross-thread part of the "
               "property (subscribe racing with the collector's exchange) is the interleaving model cs_* in SignalDefs.v",
               "listeners do not call the collector or drop handles themselves (no re-entrant emission)",
               "a listener coroutine frame is never destroyed while it is subscribed (C++ lifetime)"]

ENG = ["sgn_i", "sgc_i", "sgn_v", "sgc_v"]


def close_case(c):
    """append: (coroutine driver: pause,) drop every remaining strong handle, then (coroutine driver) one pause so that everything queued has run"""
    if c.engine in ("sx_i", "sg_stress"):
        return c
    ops = [list(o) for o in c.ops]
    coro, void = c.engine.startswith("sgc"), c.engine.endswith("_v")
    strong, nheld = 1, 0
    for k, o in enumerate(ops):
        if o == [3] and strong > 0: strong += 1
        elif o == [4] and strong > 0: strong -= 1
        elif len(o) in (6, 7) and o[0] == 9 and k == 0 and o[5] in (0, 1) and 0 <= o[1] <= 63 and 0 <= o[2] <= 9 and o[3] in (0, 1) and 0 <= o[4] <= 3 \
                and (len(o) == 6 or 0 <= o[6] <= 3):
            strong = 1 if o[5] == 1 else 0
        elif len(o) == 3 and o[0] == 6 and strong > 0 and 0 <= o[1] <= 2 and not (void and o[1] != 0) and abs(o[2]) <= 100000: nheld += 1
        elif o == [7] and nheld > 0: nheld -= 1
        elif o == [8] and nheld > 0 and coro: nheld -= 1
    tail = [[7]] * nheld + [[4]] * strong
    if coro:
        # pause first: a discarded collector call may have left listeners queued (dropping now would be the known overrun)
        tail = [[7]] * nheld + ([[5]] if ops and (ops[-1] != [5] or nheld) and strong > 0 else []) + [[4]] * strong + [[5]]
    return Case(c.engine, c.name, ops + tail, c.meta)


class G:
    """tracks just enough to stay out of (or deliberately inside) the coroutine-mode discard overrun"""
    def __init__(self, rng, engine, overrun=False):
        self.rng, self.engine, self.overrun = rng, engine, overrun
        self.coro = engine.startswith("sgc")
        self.void = engine.endswith("_v")
        self.ops = []
        self.strong = 1
        self.nid = 0
        self.cos = 0          # coroutine listeners spawned while alive (upper bound of waiting ones)
        self.dirty = False    # coroutine mode: a discarded call may have left listeners queued
        self.nheld = 0        # suspend points kept by the driver
        self.v = 10

    def fresh(self):
        self.nid += 1
        return self.nid

    def spawn(self, limit=None, pause=None, retry=None):
        r = self.rng
        if self.nid >= 60: return
        limit = r.choice([0, 0, 0, 1, 2, 3]) if limit is None else limit
        pause = r.choice([0, 0, 0, 1]) if pause is None else pause
        retry = r.choice([0, 0, 1, 2]) if retry is None else retry
        self.ops.append([0, self.fresh(), limit, pause, retry])
        if self.strong > 0: self.cos += 1

    def connect(self, limit=None):
        if self.nid >= 60: return
        limit = self.rng.choice([0, 0, 1, 2, 3]) if limit is None else limit
        self.ops.append([1, self.fresh(), limit])

    def emit(self, kind=None, awaited=None):
        r = self.rng
        if self.strong == 0 and r.random() < 0.8: return
        kind = (0 if self.void else r.choice([0, 1, 2])) if kind is None else kind
        if awaited is None:
            awaited = r.choice([0, 1, 1]) if self.coro else 0
        self.settle()
        self.v += 1
        self.ops.append([2, kind, awaited, self.v])
        if self.coro and not awaited and self.cos > 0:
            self.dirty = True
        if self.coro and awaited and self.cos > 0 and not self.overrun:
            self.dirty = False

    def settle(self):
        """nothing may be pending (kept suspend points, queued listeners) when the collector is called again / the state dies"""
        if self.overrun: return
        while self.nheld > 0:
            self.release()
        if self.coro and self.dirty:
            self.pause()

    def hold(self):
        if self.strong == 0 and self.rng.random() < 0.8: return
        self.settle()
        kind = 0 if self.void else self.rng.choice([0, 1, 2])
        self.v += 1
        self.ops.append([6, kind, self.v])
        if self.strong > 0: self.nheld += 1

    def release(self):
        if self.coro and self.rng.random() < 0.5:
            self.ops.append([8])
            # an empty suspend point does not suspend: whatever is queued stays queued
        else:
            self.ops.append([7])
            if self.coro and self.cos > 0: self.dirty = True
        if self.nheld > 0: self.nheld -= 1

    def copy(self):
        self.ops.append([3])
        if self.strong > 0: self.strong += 1

    def drop(self):
        if self.strong == 1:
            self.settle()
        self.ops.append([4])
        if self.strong > 0: self.strong -= 1

    def pause(self):
        self.ops.append([5])
        if self.coro: self.dirty = False


def gen_random(rng, engine, name, nops):
    g = G(rng, engine)
    if rng.random() < 0.15:      # the case starts with a listener on signal<T>::hook_up
        keep = rng.choice([1, 1, 1, 0])
        # the registration function emits n values itself; inside a coroutine more than one would be the known overrun
        # (the result of a call made inside fn is discarded), and one followed by the drop as well
        n = rng.choice([0, 1, 2, 3]) if not g.coro else (rng.choice([0, 1]) if keep else 0)
        op = [9, g.fresh(), rng.choice([0, 0, 2]), rng.choice([0, 0, 1]), rng.choice([0, 1, 2]), keep]
        g.ops.append(op + [n] if (n or rng.random() < 0.5) else op)
        g.cos = 1
        if g.coro and n: g.dirty = True
        if not keep: g.strong = 0
    for _ in range(rng.randint(0, 3)):
        g.spawn() if rng.random() < 0.6 else g.connect()
    for _ in range(nops):
        x = rng.random()
        if x < 0.16: g.spawn()
        elif x < 0.28: g.connect()
        elif x < 0.62: g.emit()
        elif x < 0.70: g.hold()
        elif x < 0.74 and g.nheld > 0: g.release()
        elif x < 0.78: g.copy()
        elif x < 0.90: g.drop()
        elif g.coro: g.pause()
        else: g.emit()
    if rng.random() < 0.12:
        bad = rng.choice([[7], [2, 3, 0, 1], [0, 99, 0, 0, 0], [1, 1], [2, 0, 1, 5] if not g.coro else [2, 0, 2, 5],
                          [0, 1, 0, 2, 0], [5] if not g.coro else [6], [3, 3], []])
        g.ops.insert(rng.randrange(len(g.ops) + 1), bad)
    return close_case(Case(engine, name, g.ops))


def boundary(cases):
    b = [0]
    def add(engine, ops):
        cases.append(close_case(Case(engine, "b%d" % b[0], ops))); b[0] += 1
    for eng in ENG:
        coro, void = eng.startswith("sgc"), eng.endswith("_v")
        kinds = [0] if void else [0, 1, 2]
        aw = [0, 1] if coro else [0]
        fl = [[5]] if coro else []
        for n in (0, 1, 2, 3, 4, 5, 7):           # suspend point: inline up to 3 handles, heap array from 4
            for a in aw:
                ops = [[0, i + 1, 0, 0, 0] for i in range(n)]
                for k in kinds:
                    ops += [[2, k, a, 100 + k]] + ([] if a else fl)
                add(eng, ops)
                # listeners, callbacks interleaved in the chain; callbacks leaving after 1 and 2 calls
                ops = []
                for i in range(n):
                    ops += [[0, 2 * i + 1, 0, 0, 0], [1, 2 * i + 2, (i % 3)]]
                ops += [[2, kinds[-1], a, 7]] + ([] if a else fl) + [[2, 0, a, 8]] + ([] if a else fl) + [[2, 0, a, 9]] + ([] if a else fl)
                add(eng, ops)
        # departure by limit, pausing listeners, late arrival, retry after cancel, use after disconnect
        for a in aw:
            s = ([] if a else fl)
            add(eng, [[0, 1, 2, 0, 0], [0, 2, 0, 1, 0], [0, 3, 1, 1, 1], [2, 0, a, 1]] + s + [[0, 4, 0, 0, 2], [2, 0, a, 2]] + s +
                     [[2, 0, a, 3]] + s + fl + [[2, 0, a, 4]] + s)
            add(eng, [[0, 1, 0, 0, 3], [1, 2, 0], [1, 3, 1], [3], [4], [2, 0, a, 5]] + s + [[4], [0, 4, 0, 0, 2], [1, 5, 0], [2, 0, a, 6], [3]])
            add(eng, [[1, 1, 0], [1, 2, 0], [2, 0, a, 1]] + s + [[2, 0, a, 2]] + s + [[0, 3, 0, 0, 0], [2, 0, a, 3]] + s)
            add(eng, [[0, 1, 0, 1, 1], [0, 2, 0, 1, 0], [1, 3, 0], [2, 0, a, 1]] + s + [[4]] + fl + [[0, 9, 3, 1, 3]])
    return cases


def hookup_cases():
    out = []
    k = 0
    for eng in ENG:
        coro = eng.startswith("sgc")
        for keep in (1, 0):
            for n in ((0, 1, 2, 3) if not coro else ((0, 1) if keep else (0,))):
                for (lim, pause, retry) in ((0, 0, 0), (2, 0, 1), (0, 1, 0), (1, 0, 0)):
                    ops = [[9, 1, lim, pause, retry, keep, n]] + ([[5]] if coro else []) + [[2, 0, 1 if coro else 0, 7]] + ([[5]] if coro else [])
                    out.append(close_case(Case(eng, "h%d" % k, ops))); k += 1
    return out


def overrun_cases():
    """the known finding: collector result discarded inside a coroutine, collector called again (or last handle dropped)
    before the driver suspends — listeners only queued, they read the later value / are cancelled"""
    out = []
    out.append(Case("sgc_i", "f0", [[0, 1, 0, 0, 0], [0, 2, 0, 0, 0], [2, 0, 0, 1], [2, 0, 0, 2], [2, 0, 1, 3], [5]]))
    out.append(Case("sgc_i", "f1", [[0, 1, 0, 0, 0], [2, 2, 0, 1], [2, 1, 0, 2], [5]]))
    out.append(Case("sgc_i", "f2", [[0, 1, 0, 0, 1], [1, 2, 0], [2, 0, 0, 1], [4], [5]]))
    out.append(Case("sgc_v", "f3", [[0, 1, 2, 0, 0], [2, 0, 0, 1], [4], [5]]))
    out.append(Case("sgc_i", "f4", [[0, 1, 0, 0, 0], [2, 0, 0, 1], [0, 2, 0, 0, 0], [2, 0, 1, 2], [5]]))
    return [close_case(c) for c in out]


def gen(seed, tier):
    rng = random.Random(seed * 104729 + 15)
    n = 400 if tier == "quick" else 5000
    cases = boundary([])
    cases += overrun_cases()
    cases += hookup_cases()
    for i in range(n):
        eng = ENG[i % 4]
        cases.append(gen_random(rng, eng, "g%d" % i, rng.choice([4, 8, 12, 20, 30])))
    if tier != "quick":
        # exhaustive small programs: 2 listeners (all script shapes) x every sequence of 4 driver ops
        import itertools
        j = 0
        shapes = [[0, 1, 0, 0, 0], [0, 1, 1, 0, 1], [0, 1, 0, 1, 0], [1, 1, 0], [1, 1, 1]]
        for eng in ("sgn_i", "sgc_i"):
            drv = [[2, 0, 0, 1], [2, 2, 0, 2], [4], [3]] + ([[2, 1, 1, 3], [5]] if eng == "sgc_i" else [])
            for s1 in shapes:
                for s2 in shapes:
                    l2 = list(s2); l2[1] = 2
                    for seq in itertools.product(range(len(drv)), repeat=3):
                        ops = [s1, l2]
                        g = G(rng, eng)
                        g.cos = 2
                        for k in seq:
                            o = drv[k]
                            if o[0] == 2: g.emit(o[1], o[2])
                            elif o[0] == 4: g.drop()
                            elif o[0] == 3: g.copy()
                            else: g.pause()
                        cases.append(close_case(Case(eng, "x%d" % j, ops + g.ops))); j += 1
    return cases


def nontrivial(case, model_obs):
    if case.engine == "sg_stress":
        return any(o and ((o[0] == 40 and len(o) == 5 and o[1] >= 1000 and o[2] >= 2) or (o[0] == 42 and len(o) == 3 and o[1] >= 1000)) for o in case.ops)
    if case.engine == "sx_i":
        # at least 3 thread switches in the executed trace and somebody was taken by an exchange
        tids = [l.split()[0] for l in model_obs if len(l.split()) == 2]
        sw = sum(1 for a, b in zip(tids, tids[1:]) if a != b)
        return sw >= 3 and any(l.startswith("8 ") for l in model_obs)
    for l in model_obs:
        a = l.split()
        if len(a) < 4 or a[0] != "0": continue
        ev = a[4:]
        kinds = ev[0::3]
        if sum(1 for k in kinds if k in ("1", "3")) >= 2 or "2" in kinds:
            return True
    return False


def _oracle_with(engine, case, impl_obs):
    d = tempfile.mkdtemp(prefix="c15sig.", dir="/var/tmp")
    try:
        c = Case(engine, "sig", case.ops)
        cp, op = os.path.join(d, "c.txt"), os.path.join(d, "o.txt")
        vlib.write_cases([c], cp)
        vlib.write_obs({"sig": impl_obs}, ["sig"], op)
        return vlib.oracle(cp, op).get("sig")
    except Exception:
        return None
    finally:
        import shutil
        shutil.rmtree(d, ignore_errors=True)


def signature(case, impl_obs, model_obs):
    last = impl_obs[-1] if impl_obs else ""
    if last.startswith("CRASH"):
        return "sg:" + (last.split()[1] if len(last.split()) > 1 else "crash")
    if last in ("HANG", "MISSING"):
        return "sg:" + last
    if case.engine == "sg_stress":
        return "ss:counts"
    if case.engine == "sx_i":
        return "sx:deadlock" if any(l.startswith("777") for l in impl_obs) else "sx:oracle"
    if case.engine in ("sgc_i", "sgc_v"):
        # the strict oracle failed; does the variant that lets a listener queued by a discarded suspend point be
        # overrun by a later collector call / the last drop accept the very same trace?  Then (and only then) this is F-C15.
        if _oracle_with(case.engine + "_lax", case, impl_obs) == "OK":
            return "sgc:coro-discard-overrun"
    return case.engine[:3] + ":oracle"


# ---------------------------------------------------------------- cross-thread scenarios (engine sx_i, harness ctl_signal.cpp)
def xmk(name, subs, acts, sched, order=None):
    decl = [[1, k, l] for (k, l) in subs] + [[2] + list(acts)]
    if order is not None:
        decl = [decl[i] for i in order]
    return Case("sx_i", name, decl + [[9] + list(sched)])


def gen_x(seed, tier):
    import itertools
    rng = random.Random(seed * 15485863 + 1515)
    n = 250 if tier == "quick" else 3000
    cases = []
    for i in range(n):
        ns = rng.choice([1, 1, 2, 2, 3, 4])
        subs = [(rng.choice([0, 1, 1, 2, 2, 3]), rng.choice([0, 1, 2, 3])) for _ in range(ns)]
        ne = rng.choice([0, 1, 1, 2, 3])
        acts = [1] * ne + ([0] if rng.random() < 0.93 else [])
        order = list(range(ns + 1)); rng.shuffle(order)
        L = rng.choice([0, 6, 12, 20, 30, 40])
        style = rng.random()
        if style < 0.5:
            sched = [rng.randint(0, 5) for _ in range(L)]
        elif style < 0.8:      # bursts: one thread runs for a while (opens the window between asub/apub and rchain/walk)
            sched = []
            while len(sched) < L:
                sched += [rng.randint(0, 5)] * rng.randint(1, 5)
        else:
            sched = [rng.choice([5, 4, 3, 0]) for _ in range(L)]
        cases.append(xmk("x%d" % i, subs, acts, sched, order))
    if tier != "quick":
        j = 0
        cfgs = [([(0, 0)], [1, 0]), ([(1, 0)], [1, 0]), ([(2, 0)], [1, 1, 0]), ([(3, 0)], [1, 0]), ([(1, 0), (2, 1)], [1, 0]),
                ([(0, 0), (1, 0)], [0]), ([(2, 2), (3, 0)], [1, 1, 0])]
        for (subs, acts) in cfgs:
            for pre in itertools.product(range(3), repeat=7):
                cases.append(xmk("y%d" % j, subs, acts, pre)); j += 1
    # hook-up listener + a collector thread that emits as soon as the registration function has handed it the collector
    hk = 0
    for acts in ([1, 0], [1, 1, 0], [0], [1], [1, 1, 1, 0]):
        for order in ((0, 1), (1, 0)):
            for _ in range(3 if tier == "quick" else 12):
                L = rng.choice([0, 4, 8, 12, 20])
                sched = [rng.randint(0, 3) for _ in range(L)]
                cases.append(xmk("k%d" % hk, [(4, 0)], acts, sched, list(order))); hk += 1
    if tier != "quick":
        for pre in itertools.product(range(2), repeat=9):
            cases.append(xmk("k%d" % hk, [(4, 0)], [1, 1, 0], pre)); hk += 1
    # malformed: no collector / two collectors / hook-up with a third thread
    cases.append(Case("sx_i", "bad2", [[1, 4, 0], [1, 0, 0], [2, 1, 0], [9, 0, 1]]))
    cases.append(Case("sx_i", "bad0", [[1, 0, 0], [9, 0, 0]]))
    cases.append(Case("sx_i", "bad1", [[2, 1, 0], [2, 1], [1, 0, 0], [9, 1]]))
    return cases


# ---------------------------------------------------------------- free-running stress (engine sg_stress, harness stress_signal.cpp)
def gen_stress(seed, tier):
    """real uncontrolled threads: 2-3 subscriber threads (one-shot coroutine listeners / one-shot callbacks) against one collector
    thread calling in a tight loop; per case ~100k-180k subscriptions (quick: ~1M in total, a few seconds; thorough x10)"""
    rng = random.Random(seed * 32452843 + 77)
    mul = 1 if tier == "quick" else 10
    cfgs = [(60000, 3, 0, 0), (50000, 3, 2, 0), (60000, 2, 0, 0), (40000, 3, 0, 5), (40000, 2, 3, 0), (40000, 3, 5, 2),
            (30000, 4, 0, 0), (30000, 4, 6, 1)]
    cases = []
    for k, (per, n, mask, j) in enumerate(cfgs):
        per = per * mul + rng.randint(0, 999)
        cases.append(Case("sg_stress", "s%d" % k, [[40, min(per, 1000000), n, mask, j]]))
    # hook-up: the emitter thread emits as soon as the registration function has published the collector
    for k, (it, j) in enumerate([(30000, 0), (30000, 20), (20000, 200)]):
        cases.append(Case("sg_stress", "sh%d" % k, [[42, min(it * mul + rng.randint(0, 99), 1000000), j]]))
    cases.append(Case("sg_stress", "sbad", [[40, 0, 3, 0, 0], [41, 5], [40, 10, 9, 0, 0], [42, 0, 0]]))
    return cases


PARTS = [{"name": "vm_signal", "harness": "vm_signal.cpp", "gen": gen},
         {"name": "stress_signal", "harness": "stress_signal.cpp", "gen": gen_stress, "no_shrink": True, "timeout_case": 180},
         {"name": "ctl_signal", "harness": "ctl_signal.cpp", "gen": gen_x, "timeout_case": 60}]
