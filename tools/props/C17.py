"""C17 — shared_future: one result for all copies; the shared state lives exactly as long as needed (shared_future.h)."""
import itertools, random
from vlib import Case

RULE = ("controlled schedules (real threads, one runnable at a time, yield at every COCLS_VERIF_POINT and at every handle copy / drop) of "
        "a creator thread (7 construction modes: ctor from fn(promise), ctor from fn returning a future, default + get_promise(), "
        "default + init_if_needed + copies handed to polling/dropping users BEFORE get_promise(), shared_future<T> from fn returning future<T&> resolved through promise<T&>, "
        "default + init_if_needed + copy + get_promise() on the copy, set_value, ctor from an async coroutine's start()), a resolver (value / "
        "exception / drop) and 0-5 user threads that first keep / copy-construct / copy-assign onto a live handle / move-assign onto a live "
        "handle / self-assign their handle and then drop / poll ready()+value() / co_await / sync() / join() / subscribe a callback awaiter (every value is read twice; a moved-from payload is recognisable); value types instance-counted "
        "struct, void, unique_ptr (move-only), reference; payload and exception are "
        "instance counted, ASan + LSan (leak check after every case) are observations; random, bursty, resolver-starving and resolver-first "
        "schedules; thorough adds every schedule prefix of length 6 over 3 choices for 21 small configurations; "
        "non-trivial = at least 3 thread switches in the executed trace; distinct = distinct (threads, schedule); "
        "plus a free-running stress part (no forced interleaving): two threads released by a spin barrier drop the last two handles of a "
        "pending state at once (destructor / move assignment / copy assignment), resolver afterwards, up to 40000 (quick) / 100000 (thorough) "
        "rounds per configuration bounded to 2 s / 5 s, observation independent of the number of rounds run")
SCOPE = ("shared_future ctor(fn(promise)) / ctor(fn->future) / default ctor / init_if_needed / get_promise / set_value / copy / destructor / "
         "ready / value / sync / operator co_await, resolve_cb::charge and the tracer callback, future::get_promise/result_of/set/resolve/value, "
         "promise::set_value/set_exception/drop, awaiter::resume_chain_set_ready/resume_chain_lk/subscribe_check_ready, co_awaiter sync/await_*")
ASSUMPTIONS = ["std::shared_ptr's control block is trusted: modelled as one atomic counter (handles + tracer self-reference); the temporary "
               "copy passed to charge() by value is covered by the caller's handle and not counted",
               "every awaiter keeps its own handle while it waits (documented requirement, shared_future.h:34-35); user threads receive their "
               "handle only after the constructor / get_promise() returned (nobody awaits a future whose promise was not taken yet)",
               "interleaving at the granularity of the hook points, sequentially consistent; one resolver (competing resolvers are C01)"]


ENGINES = ["sf", "sf", "sf_void", "sf_uptr", "sf_ref"]


def mk(name, mode, mval, res, users, sched, extra=None, engine="sf"):
    ops = [[0, mode, mval], [1, res[0], res[1]]] + [[2, cp, k] for (cp, k) in users] + (extra or []) + [[9] + list(sched)]
    return Case(engine, name, ops)


def rand_sched(rng, L):
    style = rng.random()
    if style < 0.45:
        return [rng.randint(0, 7) for _ in range(L)]
    if style < 0.65:      # bursts: run one thread for a while, then switch (exposes windows)
        s = []
        while len(s) < L:
            s += [rng.randint(0, 7)] * rng.randint(1, 5)
        return s[:L]
    if style < 0.85:      # starve the low tids (creator / resolver): users subscribe and drop before the resolution
        return [rng.choice([1, 2, 3, 5, 7, 11, 13]) for _ in range(L)]
    # resolver early: creator's first steps, then the resolver, then random
    return [0, 1, 1, 1, 1, 1][:rng.randint(2, 6)] + [rng.randint(0, 7) for _ in range(L)]


def gen(seed, tier):
    rng = random.Random(seed * 1000003 + 1717)
    n = 700 if tier == "quick" else 4000
    cases = []
    for i in range(n):
        mode = rng.choice([0, 0, 1, 1, 2, 3, 3, 4, 5, 5, 6, 6, 7, 7]) if i % 7 else rng.choice([0, 1, 2, 3, 5, 6, 7])
        res = (rng.choice([0, 0, 1, 2]), rng.randint(1, 99))
        if mode == 5 and res[0] == 2:
            res = (0, res[1])      # a coroutine cannot drop its promise
        CP = [0, 0, 0, 1, 2, 3, 4]
        nu = rng.choice([0, 1, 2, 2, 3, 3, 4, 5])
        aim = rng.random()
        if aim < 0.25:    # all handles dropped while pending: the state must survive until the resolution
            users = [(rng.choice(CP), 0) for _ in range(nu)]
        elif aim < 0.5:   # awaiters only
            users = [(rng.choice(CP), rng.choice([2, 3, 4, 5])) for _ in range(nu)]
        else:
            users = [(rng.choice(CP), rng.choice([0, 1, 1, 2, 3, 4, 5])) for _ in range(nu)]
        L = rng.choice([0, 6, 12, 20, 30, 45, 60])
        cases.append(mk("g%d" % i, mode, rng.randint(1, 99), res, users, rand_sched(rng, L), engine=ENGINES[i % len(ENGINES)]))
    # malformed stream: invalid / duplicated declarations are ignored alike by model and harness
    for i in range(20):
        extra = [rng.choice([[0, 7, 1], [1, 5, 5], [2, 5, 0], [2, 0, 9], [2, 0, 6], [3], [0, 1], [1, 0, 4, 4], [0, 2, 9], [1, 1, 3], [2, -1, 2]])
                 for _ in range(rng.randint(1, 4))]
        cases.append(mk("m%d" % i, rng.choice([0, 1, 2, 3, 4]), 5, (rng.choice([0, 1, 2]), 8),
                        [(0, rng.choice([0, 2, 3]))], rand_sched(rng, 20), extra))
    if tier != "quick":
        cfgs = [(0, (0, 5), [(0, 0)]), (0, (0, 5), [(0, 2)]), (0, (1, 6), [(0, 4)]), (0, (2, 0), [(0, 3)]),
                (1, (0, 5), [(0, 0)]), (1, (0, 5), [(0, 4)]), (1, (1, 5), [(1, 2)]), (2, (0, 5), [(0, 4), (0, 0)]),
                (3, (0, 5), [(0, 2), (0, 3)]), (0, (0, 5), [(0, 2), (0, 4)]), (0, (0, 5), []), (1, (2, 0), []),
                (0, (0, 5), [(1, 1)]), (4, (0, 5), [(0, 2), (1, 0)]), (5, (0, 5), [(0, 2)]), (5, (1, 5), [(0, 0)]),
                (0, (0, 5), [(2, 4)]), (1, (0, 5), [(3, 0)]), (6, (0, 5), [(0, 1), (0, 2)]), (0, (0, 5), [(0, 5), (0, 1)]), (7, (0, 5), [(0, 2), (1, 3)])]
        j = 0
        for (mode, res, users) in cfgs:
            for pre in itertools.product(range(3), repeat=6):
                cases.append(mk("x%d" % j, mode, 9, res, users, pre)); j += 1
    return cases


def gen_stress(seed, tier):
    """free-running part: two threads drop the last two handles of a pending state at once, resolver afterwards"""
    rng = random.Random(seed * 1000003 + 7117)
    cfgs = [(0, 0, 0), (1, 0, 1), (2, 1, 2), (3, 0, 0), (0, 2, 1)]
    if tier != "quick":
        cfgs += [(m, k, d) for m in range(4) for k in range(3) for d in range(3)]
    rng.shuffle(cfgs)
    rounds = 40000 if tier == "quick" else 100000
    return [Case("sf_stress", "st%d" % i, [[7, rounds, m, k, d]]) for i, (m, k, d) in enumerate(cfgs)]


def nontrivial(case, model_obs):
    if case.engine == "sf_stress":
        return True
    tids = [l.split()[0] for l in model_obs if len(l.split()) == 2]
    switches = sum(1 for a, b in zip(tids, tids[1:]) if a != b)
    return switches >= 3


def signature(case, impl_obs, model_obs):
    last = impl_obs[-1] if impl_obs else ""
    if last.startswith("CRASH"):
        return "shared:" + last.split()[1]
    if last == "HANG":
        return "shared:HANG"
    if any(l.startswith("777") for l in impl_obs):
        return "shared:deadlock"
    if last.startswith("10 ") and last.split()[2:] == ["1"]:
        return "shared:leak"
    return "shared:oracle"


PARTS = [{"name": "ctl_shared", "harness": "ctl_shared.cpp", "gen": gen, "no_shrink": False, "timeout_case": 60},
         {"name": "stress_shared", "harness": "stress_shared.cpp", "gen": gen_stress, "no_shrink": True, "timeout_case": 30}]
