"""vlib.py — shared machinery of the /verif checks.

Pipeline per check (DESIGN 1.4): gate -> (generate) -> prove -> build -> correspond -> decide -> evidence.
Nothing here contains expected values for the implementation: the only oracles are the
extracted Coq model (correspondence) and the extracted decidable property (search)."""
import fcntl, glob, hashlib, json, os, random, re, shutil, subprocess, sys, time

VERIF = os.path.dirname(os.path.dirname(os.path.abspath(__file__)))
REPO = os.environ.get("COCLS_REPO", "/repo")
COQ = os.path.join(VERIF, "coq")
BUILD = os.path.join(VERIF, "build")
BIN = os.path.join(VERIF, "bin")
EVID = os.path.join(VERIF, "evidence")
GUARD = "COCLS_VERIF"
NPROC = os.cpu_count() or 4

FORBIDDEN = re.compile(
    r"\b(Admitted|admit|Axiom|Axioms|Parameter|Parameters|Conjecture|Conjectures|Hypothesis|Hypotheses|Variable|Variables|Admit Obligations)\b"
    r"|Unset\s+Guard|bypass_check|type-in-type|impredicative-set|Unset\s+Universe\s+Checking|Unset\s+Positivity")

ALLOWED_AXIOMS = {
    # standard-library axioms that may appear through std++/Program/Equations; each is reported in evidence
    "functional_extensionality_dep", "proof_irrelevance", "eq_rect_eq", "JMeq_eq", "classic",
    "propositional_extensionality",
}


def sh(cmd, cwd=None, timeout=None, env=None, inp=None):
    p = subprocess.run(cmd, cwd=cwd, shell=isinstance(cmd, str), stdout=subprocess.PIPE,
                       stderr=subprocess.PIPE, timeout=timeout, env=env, input=inp)
    return p.returncode, p.stdout.decode(errors="replace"), p.stderr.decode(errors="replace")


class Lock:
    def __init__(self, name):
        os.makedirs(BUILD, exist_ok=True)
        self.path = os.path.join(BUILD, name + ".lock")

    def __enter__(self):
        self.f = open(self.path, "w")
        fcntl.flock(self.f, fcntl.LOCK_EX)
        return self

    def __exit__(self, *a):
        fcntl.flock(self.f, fcntl.LOCK_UN)
        self.f.close()


# ------------------------------------------------------------------ gate
def strip_coq_comments(s):
    out, depth, i = [], 0, 0
    while i < len(s):
        if s.startswith("(*", i):
            depth += 1; i += 2
        elif s.startswith("*)", i) and depth:
            depth -= 1; i += 2
        else:
            if depth == 0:
                out.append(s[i])
            i += 1
    return "".join(out)


def gate():
    """returns list of offending (file, line, text); Section-local Variable/Hypothesis are allowed
    only between Section ... End (checked by tracking nesting)."""
    bad = []
    for f in sorted(glob.glob(os.path.join(COQ, "**", "*.v"), recursive=True)):
        src = strip_coq_comments(open(f).read())
        depth = 0
        for ln, line in enumerate(src.split("\n"), 1):
            if re.match(r"\s*Section\b", line):
                depth += 1
            if re.match(r"\s*End\b", line) and depth:
                depth -= 1
            for m in FORBIDDEN.finditer(line):
                w = m.group(0)
                if w.split()[0] in ("Variable", "Variables", "Hypothesis", "Hypotheses") and depth > 0:
                    continue
                bad.append((os.path.relpath(f, VERIF), ln, line.strip()))
    return bad


# ------------------------------------------------------------------ coq build
def coq_files():
    proj = open(os.path.join(COQ, "_CoqProject")).read().split()
    return [x for x in proj if x.endswith(".v")]


def build_coq(targets=None, timeout=1500):
    """full .vo build with make -k; returns (ok_all, log)."""
    with Lock("coq"):
        sh([sys.executable, os.path.join(VERIF, "tools", "assemble.py")], timeout=60)
        if not os.path.exists(os.path.join(COQ, "Makefile")) or \
           os.path.getmtime(os.path.join(COQ, "Makefile")) < os.path.getmtime(os.path.join(COQ, "_CoqProject")):
            rc, o, e = sh("coq_makefile -f _CoqProject -o Makefile", cwd=COQ, timeout=120)
            if rc:
                return False, o + e
        tg = " ".join(targets) if targets else ""
        rc, o, e = sh("timeout %d make -k -j%d %s" % (timeout, NPROC, tg), cwd=COQ, timeout=timeout + 30)
        return rc == 0, o + e


def vo_ok(vfile):
    v = os.path.join(COQ, vfile)
    vo = v[:-2] + ".vo"
    return os.path.exists(vo) and os.path.getmtime(vo) >= os.path.getmtime(v)


def property_obligations(pid):
    """Recompile Properties_<pid>.v alone (deps already built) to capture Print Assumptions.
    returns dict: theorems [{name, discharged, axioms}], log"""
    vf = "Properties_%s.v" % pid
    path = os.path.join(COQ, vf)
    if not os.path.exists(path):
        return {"theorems": [], "log": "missing " + vf, "compiled": False}
    src = strip_coq_comments(open(path).read())
    names = re.findall(r"^\s*(?:Theorem|Lemma|Corollary)\s+([A-Za-z0-9_']+)", src, re.M)
    with Lock("coq"):
        rc, o, e = sh("timeout 600 coqc -Q . Cocls %s" % vf, cwd=COQ, timeout=640)
    log = o + e
    ths = []
    # Print Assumptions output blocks: "Closed under the global context" or "Axioms:\n name : type ..."
    blocks = re.split(r"(?=Closed under the global context|Axioms:)", o)
    ass = []
    for b in blocks:
        if b.startswith("Closed under the global context"):
            ass.append([])
        elif b.startswith("Axioms:"):
            ax = re.findall(r"^([A-Za-z0-9_.']+)\s*:", b[len("Axioms:"):], re.M)
            ass.append(ax)
    for i, nme in enumerate(names):
        axs = ass[i] if i < len(ass) else None
        ok = rc == 0 and axs is not None and all(a.split(".")[-1] in ALLOWED_AXIOMS for a in axs)
        ths.append({"name": nme, "discharged": bool(ok), "axioms": axs if axs is not None else ["<no Print Assumptions output>"]})
    return {"theorems": ths, "log": log, "compiled": rc == 0}


def coqchk(pid, timeout=1500):
    """independent checker over Properties_<pid>.vo and all its dependencies; reports the axioms of the whole context"""
    with Lock("coq"):
        try:
            rc, o, e = sh("timeout %d coqchk -o -silent -Q . Cocls Cocls.Properties_%s" % (timeout, pid), cwd=COQ, timeout=timeout + 30)
        except subprocess.TimeoutExpired:
            return {"ok": False, "axioms": [], "log": "coqchk timed out"}
    log = o + e
    m = re.search(r"\* Axioms:(.*?)\n\s*\n\* Constants/Inductives relying on type-in-type:(.*?)\n\s*\n\* Constants/Inductives relying on unsafe \(co\)fixpoints:(.*?)\n\s*\n\* Inductives whose positivity is assumed:(.*?)\n", log, re.S)
    if rc != 0 or not m:
        return {"ok": False, "axioms": [], "log": log[-3000:]}
    def items(t):
        t = t.strip()
        return [] if t == "<none>" else [x.strip() for x in t.split("\n") if x.strip()]
    ax, tit, unsafe, pos = (items(m.group(i)) for i in (1, 2, 3, 4))
    ok = all(a.split(".")[-1] in ALLOWED_AXIOMS for a in ax) and not tit and not unsafe and not pos
    return {"ok": ok, "axioms": ax, "type_in_type": tit, "unsafe_fixpoints": unsafe, "assumed_positive": pos, "log": "" if ok else log[-3000:]}


# ------------------------------------------------------------------ modelrun
def _modelrun_stamp():
    h = hashlib.sha256()
    for f in sorted(glob.glob(os.path.join(COQ, "*.v")) +
                    glob.glob(os.path.join(COQ, "extract", "parts", "*.json")) +
                    [os.path.join(VERIF, "ocaml", "driver.ml"), os.path.join(VERIF, "ocaml", "build.sh")]):
        h.update(f.encode()); h.update(open(f, "rb").read())
    return h.hexdigest()


def build_modelrun():
    with Lock("ocaml"):
        sh([sys.executable, os.path.join(VERIF, "tools", "assemble.py")], timeout=60)
        # the model runner depends only on the model sources (not on /repo): skip extraction + compilation when they are unchanged
        stamp, sp = _modelrun_stamp(), os.path.join(BUILD, "modelrun.stamp")
        if os.path.exists(os.path.join(BIN, "modelrun")) and os.path.exists(sp) and open(sp).read() == stamp:
            return True, "cached"
        ex = os.path.join(COQ, "extract")
        # Extract.v depends only on *Defs.v files, so it builds even when a proof file is broken
        rc, o, e = sh("timeout 600 coqc -Q .. Cocls Extract.v", cwd=ex, timeout=640)
        if rc:
            return False, o + e
        rc, o, e = sh(os.path.join(VERIF, "ocaml", "build.sh"), timeout=300)
        if rc == 0:
            open(os.path.join(BUILD, "modelrun.stamp"), "w").write(stamp)
        return rc == 0, o + e


def modelrun(cases_path):
    rc, o, e = sh([os.path.join(BIN, "modelrun"), "run", cases_path], timeout=600)
    if rc:
        raise RuntimeError("modelrun failed: " + e[:2000])
    return parse_obs(o)[0]


def oracle(cases_path, obs_path):
    rc, o, e = sh([os.path.join(BIN, "modelrun"), "oracle", cases_path, obs_path], timeout=600)
    if rc:
        raise RuntimeError("modelrun oracle failed: " + e[:2000])
    out = {}
    for l in o.splitlines():
        a = l.split()
        if len(a) == 2:
            out[a[0]] = a[1]
    return out


# ------------------------------------------------------------------ harness build
def repo_hash():
    h = hashlib.sha256()
    for f in sorted(glob.glob(os.path.join(REPO, "src", "cocls", "*.h"))):
        h.update(f.encode()); h.update(open(f, "rb").read())
    return h


SAN_FLAGS = "-O1 -g -fsanitize=address,undefined -fno-sanitize-recover=all -fno-omit-frame-pointer"


def build_harness(src, flags=SAN_FLAGS, compiler="g++", extra="", hooks=True):
    os.makedirs(os.path.join(BUILD, "bin"), exist_ok=True)
    h = repo_hash()
    sp = os.path.join(VERIF, "harness", src)
    for f in [sp] + sorted(glob.glob(os.path.join(VERIF, "harness", "*.h"))):
        h.update(open(f, "rb").read())
    h.update((flags + compiler + extra + str(hooks)).encode())
    out = os.path.join(BUILD, "bin", os.path.splitext(src)[0] + "-" + h.hexdigest()[:16])
    if os.path.exists(out):
        return True, out, "cached"
    guard = "-D%s" % GUARD if hooks else ""
    cmd = "%s -std=c++20 %s %s -I%s/src -I%s/harness %s %s -o %s.tmp -lpthread" % (
        compiler, flags, guard, REPO, VERIF, extra, sp, out)
    rc, o, e = sh("timeout 600 " + cmd, timeout=640)
    if rc:
        return False, None, e[-4000:]
    os.replace(out + ".tmp", out)
    # drop stale binaries of the same harness
    for old in glob.glob(os.path.join(BUILD, "bin", os.path.splitext(src)[0] + "-*")):
        if old != out and not old.endswith(".tmp"):
            try: os.remove(old)
            except OSError: pass
    return True, out, "built"


# ------------------------------------------------------------------ cases
class Case:
    def __init__(self, engine, name, ops, meta=None):
        self.engine, self.name, self.ops, self.meta = engine, name, [list(o) for o in ops], meta or {}

    def text(self):
        return "CASE %s %s\n%s%sEND\n" % (self.engine, self.name,
                                          "\n".join(" ".join(str(x) for x in o) for o in self.ops),
                                          "\n" if self.ops else "")

    def to_json(self):
        return {"engine": self.engine, "name": self.name, "ops": self.ops, "meta": self.meta}

    @staticmethod
    def from_json(d):
        return Case(d["engine"], d["name"], d["ops"], d.get("meta"))


def write_cases(cases, path):
    with open(path, "w") as f:
        for c in cases:
            f.write(c.text())


def parse_obs(text):
    """returns (dict name -> list of lines, name of unterminated case or None)"""
    out, cur, name = {}, None, None
    for l in text.splitlines():
        l = l.strip()
        if l.startswith("CASE "):
            name = l.split()[-1]; cur = []
        elif l == "END" and cur is not None:
            out[name] = cur; cur = None; name = None
        elif cur is not None and l:
            cur.append(l)
    if cur is not None:
        return out, (name, cur)
    return out, None


SAN_ENV = {"ASAN_OPTIONS": "detect_leaks=1:abort_on_error=0:halt_on_error=1:exitcode=77",
           "UBSAN_OPTIONS": "halt_on_error=1:print_stacktrace=1",
           "TSAN_OPTIONS": "halt_on_error=1:exitcode=66"}


def crash_kind(stderr, rc):
    m = re.search(r"(AddressSanitizer|LeakSanitizer|ThreadSanitizer|UndefinedBehaviorSanitizer): ([a-zA-Z\-_ ]+)", stderr)
    if m:
        k = m.group(2).strip().split(" on ")[0].split(" in ")[0]
        return (m.group(1) + ":" + k).replace(" ", "-")
    m = re.search(r"runtime error: ([a-z \-]+)", stderr)
    if m:
        return "UBSan:" + m.group(1).strip().replace(" ", "-")
    if "Assertion" in stderr:
        return "assert"
    return "exit%d" % rc


def _run_watch(cmd, env, idle_timeout, total_timeout):
    """runs cmd; kills it when it produced no new stdout for idle_timeout seconds (every harness flushes one line per
    step) or after total_timeout. returns (rc, stdout, stderr, hung)"""
    import selectors, tempfile
    errf = tempfile.TemporaryFile()
    p = subprocess.Popen(cmd, stdout=subprocess.PIPE, stderr=errf, env=env)
    sel = selectors.DefaultSelector(); sel.register(p.stdout, selectors.EVENT_READ)
    out = []; t0 = last = time.time(); hung = False
    os.set_blocking(p.stdout.fileno(), False)
    while True:
        ev = sel.select(timeout=1.0)
        now = time.time()
        if ev:
            chunk = p.stdout.read()
            if chunk:
                out.append(chunk); last = now
            elif chunk == b"" and p.poll() is not None:
                break
        if p.poll() is not None and not ev:
            rest = p.stdout.read()
            if rest: out.append(rest)
            break
        if now - last > idle_timeout or now - t0 > total_timeout:
            hung = True
            p.kill(); p.wait()
            try:
                rest = p.stdout.read()
                if rest: out.append(rest)
            except Exception: pass
            break
    rc = p.wait()
    errf.seek(0); e = errf.read().decode(errors="replace"); errf.close()
    return (-9 if hung else rc), b"".join(out).decode(errors="replace"), e, hung


MAX_FAILED_CASES = 6   # after this many crashed / hung cases the rest of the batch is not run (marked SKIPPED)


def run_impl(binary, cases, tmpdir, timeout_case=20, extra_args=None, env_extra=None):
    """Runs the harness over all cases with crash/hang recovery.
    returns dict name -> list of obs lines; crashed cases end with a line 'CRASH <kind>' / 'HANG'.
    A hang is 'no output for timeout_case seconds'. After MAX_FAILED_CASES failures the remaining cases get ['SKIPPED']."""
    env = dict(os.environ); env.update(SAN_ENV)
    if env_extra: env.update(env_extra)
    res, diag = {}, {}
    todo = list(cases)
    rnd = 0
    failed = 0
    while todo:
        rnd += 1
        if failed >= MAX_FAILED_CASES:
            for c in todo: res[c.name] = ["SKIPPED"]
            break
        path = os.path.join(tmpdir, "impl_in_%d_%d.txt" % (os.getpid(), rnd))
        write_cases(todo, path)
        rc, o, e, hung = _run_watch([binary, path] + (extra_args or []), env, timeout_case, max(600, 2 * len(todo)))
        done, partial = parse_obs(o)
        res.update(done)
        names = [c.name for c in todo]
        if partial is None and rc == 42 and not hung:
            # the harness finished a case it cannot clean up after (e.g. a deadlocked schedule) and asks for a restart
            todo = [c for c in todo if c.name not in done]
            continue
        if partial is None and rc == 0 and not hung:
            missing = [n for n in names if n not in done]
            for n in missing: res[n] = ["MISSING"]
            break
        # identify the failing case: the unterminated one, else the first not done
        if partial is not None:
            bad, lines = partial
        else:
            nd = [n for n in names if n not in done]
            if not nd:
                # all cases done but process failed at exit (e.g. leak report): attribute to the last case
                bad, lines = names[-1], done.get(names[-1], [])
            else:
                bad, lines = nd[0], []
        kind = "HANG" if hung else "CRASH " + crash_kind(e, rc)
        res[bad] = list(lines) + [kind]
        diag[bad] = e[-3000:]
        failed += 1
        idx = names.index(bad)
        todo = todo[idx + 1:]
        try: os.remove(path)
        except OSError: pass
    return res, diag


def write_obs(obs, names, path):
    with open(path, "w") as f:
        for n in names:
            f.write("CASE %s\n" % n)
            for l in obs.get(n, ["MISSING"]):
                f.write(l + "\n")
            f.write("END\n")


def ddmin(ops, fails, budget=120, seconds=90):
    """greedy delta-debugging over a list of ops; fails(ops)->bool; bounded by calls and wall-clock"""
    cur = list(ops)
    n = 2
    calls = 0
    t0 = time.time()
    while len(cur) >= 2 and calls < budget and time.time() - t0 < seconds:
        chunk = max(1, len(cur) // n)
        reduced = False
        for i in range(0, len(cur), chunk):
            cand = cur[:i] + cur[i + chunk:]
            calls += 1
            if cand and fails(cand):
                cur = cand; n = max(n - 1, 2); reduced = True
                break
            if calls >= budget or time.time() - t0 >= seconds: break
        if not reduced:
            if chunk == 1: break
            n = min(len(cur), n * 2)
    return cur


# ------------------------------------------------------------------ known findings
def load_known():
    p = os.path.join(VERIF, "known_findings.json")
    if not os.path.exists(p):
        return []
    return json.load(open(p)).get("findings", [])


def known_match(pid, signature):
    for k in load_known():
        if k.get("property") == pid and k.get("kind") == "known" and k.get("signature") == signature:
            return k
    return None


# ------------------------------------------------------------------ evidence
def write_evidence(pid, tier, seed, coverage, assumptions, wall, violations):
    os.makedirs(EVID, exist_ok=True)
    coverage["library_under_test"] = {"path": REPO, "src_sha256": repo_hash().hexdigest()[:16]}
    ev = {"property_id": pid, "tier": tier, "seed": int(seed), "level": "proof", "coverage": coverage,
          "assumptions": assumptions, "wall_s": round(wall, 2), "violations": int(violations)}
    tmp = os.path.join(EVID, pid + ".json.tmp")
    json.dump(ev, open(tmp, "w"), indent=1, sort_keys=True)
    os.replace(tmp, os.path.join(EVID, pid + ".json"))


TRUSTED_BASE = [
    "Coq 8.16.1 kernel and vm_compute (no native_compute); thorough tier re-checks with coqchk",
    "axioms: none declared; Print Assumptions per theorem recorded under coverage.theorems",
    "extraction: ExtrOcamlBasic only (Extract Inductive bool/option/unit/prod/list/sumbool/sumor), no Extract Constant; OCaml 4.13.1; ocaml/driver.ml (I/O only)",
    "correspondence harness /verif/harness/*.cpp built from /repo working tree with -DCOCLS_VERIF, g++ 12, ASan/UBSan (TSan where stated)",
    "hand-written Gallina model: tied to the code only by the correspondence check (differential execution on generated op sequences / schedules)",
    "C++20 coroutine transformation, std::mutex/condition_variable/shared_ptr/deque/vector/push_heap, OS threads and clock are modelled, not verified",
]
