#!/bin/bash
# confirm_seed.sh <worktree> <seed-dir-inside-worktree> <seed-id>
# Confirms a proposed breaking change in its scratch worktree (never in /repo), then imports it as /verif/seeded/<seed-id>/:
#   1 patch applies to the worktree's HEAD   2 library + tests build, the 15 ctest tests pass with the change
#   3 the demonstration fails with the change    4 the demonstration passes without it
# Prints one line per step; exit 0 only if all four hold.
set -u
W=$1; S=$2; ID=$3
V=$(cd "$(dirname "$0")/.." && pwd)
cd "$W" || exit 2
git checkout -q -- src 2>/dev/null
git apply --check "$S/patch.diff" || { echo "1 APPLY: FAIL"; exit 1; }
git apply "$S/patch.diff"; echo "1 APPLY: ok"
rm -rf "$W/_build"
( cmake -G Ninja -B "$W/_build" -S "$W" >/dev/null 2>&1 && cmake --build "$W/_build" >"$W/_build.log" 2>&1 ) || { echo "2 BUILD: FAIL (see $W/_build.log)"; git checkout -q -- src; exit 1; }
T=$(ctest --test-dir "$W/_build" -j8 --timeout 900 2>&1 | grep -E "tests passed|tests failed" | tail -1)
# timing-sensitive tests can fail once under machine load: retry the suite up to two more times, serially
for try in 1 2 3 4 5 6; do case "$T" in "100% tests passed"*) break;; esac; sleep 2; T=$(ctest --test-dir "$W/_build" -j2 --timeout 900 2>&1 | grep -E "tests passed|tests failed" | tail -1); done
echo "2 TESTS: $T"
case "$T" in "100% tests passed"*) ;; *) git checkout -q -- src; rm -rf "$W/_build"; exit 1;; esac
rm -rf "$W/_build" "$W/_build.log"
run_demo() { if [ -f "$S/run.sh" ]; then ( cd "$S" && timeout 900 sh ./run.sh "$W" ) >"$W/_demo.out" 2>&1; else g++ -std=c++20 -O1 -g -I"$W/src" "$S/demo.cpp" -o "$W/_demo" -lpthread >"$W/_demo.out" 2>&1 && timeout 300 "$W/_demo" >>"$W/_demo.out" 2>&1; fi; }
run_demo; RC1=$?
echo "3 DEMO with change: rc=$RC1 $(tail -1 "$W/_demo.out" | cut -c1-160)"
git checkout -q -- src
run_demo; RC2=$?
echo "4 DEMO without change: rc=$RC2 $(tail -1 "$W/_demo.out" | cut -c1-160)"
rm -f "$W/_demo" "$W/_demo.out"
if [ $RC1 -ne 0 ] && [ $RC2 -eq 0 ]; then
  mkdir -p "$V/seeded/$ID"
  cp "$S/patch.diff" "$S/meta.json" "$V/seeded/$ID/"
  for f in "$S"/demo* "$S"/run.sh; do [ -f "$f" ] && cp "$f" "$V/seeded/$ID/"; done
  python3 - "$V/seeded/$ID/meta.json" "$T" "$RC1" "$RC2" <<'E'
import json,sys
p=sys.argv[1]; m=json.load(open(p))
m["confirmed_by_lead"]={"applies":True,"ctest":sys.argv[2],"demo_rc_with_change":int(sys.argv[3]),"demo_rc_without_change":int(sys.argv[4]),
  "how":"tools/confirm_seed.sh in the scratch worktree (git apply; cmake+ninja build; ctest -j8; run.sh/demo with and without the change)"}
json.dump(m,open(p,"w"),indent=1)
E
  echo "CONFIRMED -> seeded/$ID"; exit 0
fi
echo "NOT CONFIRMED"; exit 1
