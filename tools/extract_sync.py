#!/usr/bin/env python3
"""extract_sync.py — translator for the *syntactic* synchronisation facts of cocls (property C03).

Runs   clang++ -std=c++20 -fsyntax-only -Xclang -ast-dump=json -Xclang -ast-dump-filter=cocls::
over a small translation unit that includes the headers of $COCLS_REPO and uses the templates the
protocols need, walks the JSON AST and writes coq/gen/SyncGen.v:

  (1) `orders`   : one field per anchored atomic operation, value Relaxed|Consume|Acquire|Release|AcqRel|SeqCst.
                   A site is located by (enclosing class, enclosing function, atomic object name, operation),
                   never by line number.  A missing / duplicated-with-different-orders / unrecognised atomic
                   operation in an anchored class makes the generation FAIL (complete := false and a problem list),
                   it is never silently defaulted.
  (2) `skeletons`: per mutex-guarded class and method a control-flow graph of Lock | Unlock | Release (RAII guard
                   destructor) | Rd f | Wr f | Call g | Skip | End nodes with, per node, the lock state the
                   translator claims on entry (a certificate that LocksetDefs.all_guarded re-checks in Coq).
  (3) `no_touch_after_publish`: for the functions that publish an awaiter node by CAS, whether any field of the
                   node is accessed after the publishing CAS on the path on which the node stays published.

Usage: extract_sync.py [--repo DIR] [--out FILE] [--json FILE]     exit code 0 = complete, 3 = incomplete"""
import json, os, re, subprocess, sys, tempfile

HERE = os.path.dirname(os.path.abspath(__file__))
VERIF = os.path.dirname(HERE)

TU = r'''
#include <cocls/future.h>
#include <cocls/mutex.h>
#include <cocls/coro_storage.h>
#include <cocls/generator.h>
#include <cocls/queue.h>
#include <cocls/thread_pool.h>
#include <cocls/scheduler.h>
#include <cocls/publisher.h>
#include <cocls/async.h>
namespace xsync {
cocls::generator<int> gen() { co_yield 1; }
cocls::async<void> coro(cocls::mutex &mx, cocls::queue<int> &q, cocls::limited_queue<int> &lq, cocls::scheduler &sch,
                        cocls::publisher<int> &pub, cocls::thread_pool &pool) {
    auto own = co_await mx.lock(); own.release();
    int v = co_await q.pop(); (void)v;
    co_await lq.push(1);
    int w = co_await lq.pop(); (void)w;
    co_await sch.sleep_for(std::chrono::milliseconds(1));
    co_await pool;
    cocls::subscriber<int> sub(pub);
    auto x = co_await sub.next(); (void)x;
}
void use() {
    cocls::future<int> f; auto p = f.get_promise(); p(1); (void)f.ready(); f.wait(); { bool hv = f.has_value(); (void)hv; auto hva = f.has_value(); (void)hva.await_ready(); (void)hva.await_resume(); }
    { cocls::promise<int> p2 = std::move(p); }
    cocls::mutex mx; { auto o = mx.try_lock(); } { cocls::mutex::ownership o2(mx.lock()); }
    auto g = gen(); (void)g.next();
    cocls::queue<int> q; q.push(1); (void)q.empty(); (void)q.size();
    cocls::limited_queue<int> lq(2);
    cocls::thread_pool pool(1); (void)pool.run([]{}); pool.stop();
    cocls::scheduler sch;
    cocls::publisher<int> pub; pub.publish(1); pub.close();
    coro(mx,q,lq,sch,pub,pool).detach();
    cocls::reusable_storage_mtsafe st; void *x = st.alloc(10); st.dealloc(x,10);
}
}
'''

ORDERS = {"relaxed": "Relaxed", "consume": "Consume", "acquire": "Acquire", "release": "Release",
          "acq_rel": "AcqRel", "seq_cst": "SeqCst"}
ATOMIC_OPS = {"load", "store", "exchange", "compare_exchange_weak", "compare_exchange_strong", "wait",
              "fetch_add", "fetch_sub", "fetch_or", "fetch_and", "fetch_xor", "test_and_set", "clear"}
CAS_OPS = {"compare_exchange_weak", "compare_exchange_strong"}


def cas_failure(order):
    """[atomics.types.operations]: the single-order overload uses, for the failure case, the order with the
    release part removed"""
    return {"AcqRel": "Acquire", "Release": "Relaxed"}.get(order, order)


# ---- anchored sites: (class chain, function, atomic object, operation) -> field name(s) of the Coq record `orders`
SITES = {
    ("awaiter", "resume_chain_set_ready", "chain", "exchange"): ["set_ready_xchg"],
    ("awaiter", "resume_chain", "chain", "exchange"): ["resume_chain_xchg"],
    ("awaiter", "subscribe", "chain", "compare_exchange_weak"): ["subscribe_cas", "subscribe_cas_fail"],
    ("awaiter", "subscribe_check_ready", "chain", "compare_exchange_weak"): ["subcr_cas", "subcr_cas_fail"],
    ("future_common", "ready", "_awaiter", "load"): ["ready_load"],
    ("promise", "claim", "_owner", "exchange"): ["owner_claim_xchg"],
    ("promise", "~promise", "_owner", "load"): ["owner_dtor_load"],
    ("mutex", "ready", "_requests", "compare_exchange_strong"): ["mutex_try_cas", "mutex_try_cas_fail"],
    ("mutex", "subscribe", "_requests", "compare_exchange_weak"): ["mutex_sub_cas", "mutex_sub_cas_fail"],
    ("mutex", "unlock", "_requests", "compare_exchange_strong"): ["mutex_unlock_cas", "mutex_unlock_cas_fail"],
    ("mutex", "build_queue", "_requests", "exchange"): ["mutex_bq_xchg"],
    ("reusable_storage_mtsafe", "alloc", "_busy", "exchange"): ["busy_acquire_xchg"],
    ("reusable_storage_mtsafe", "dealloc", "_busy", "store"): ["busy_release_store"],
    ("generator::promise_type", "next_sync", "_block", "store"): ["block_reset_store"],
    ("generator::promise_type", "next_sync", "_block", "wait"): ["block_wait_load"],
    ("generator::promise_type", "unblock_sync", "_block", "store"): ["block_set_store"],
    ("sync_awaiter", "wakeup", "flag", "store"): ["flag_store"],
    ("co_awaiter", "sync", "flag", "wait"): ["flag_wait_sync"],
    ("co_awaiter", "force_sync", "flag", "wait"): ["flag_wait_force_sync"],
}
# the acquire fence in the refusal branch of subscribe_check_ready: optional site; absent = Relaxed (fence(relaxed) is a no-op)
FENCE_SITE = ("awaiter", "subscribe_check_ready", "subcr_refuse_fence")
# atomic operations that exist in the anchored classes but take no part in a publication protocol
IGNORED = {
    ("awaiter", "subscribe", "chain", "load"): "assert only",
    ("mutex", "unlock", "_requests", "load"): "assert only",
    ("mutex", "~mutex", "_requests", "load"): "assert only (implicit conversion)",
    ("future_common", "initialized", "_awaiter", "load"): "pointer comparison only, documented not MT-safe",
    ("future_common", "pending", "_awaiter", "load"): "pointer comparison only",
    ("future", "get_promise", "_awaiter", "exchange"): "before the promise exists (single thread)",
    ("async::co_awaiter", "await_ready", "_awaiter", "load"): "awaiter-private future, same thread",
    ("async::co_awaiter", "await_suspend", "_awaiter", "store"): "before the child coroutine is started (program order)",
    ("sync_awaiter", "wait_sync", "flag", "wait"): "unused helper; same default order as co_awaiter::sync",
    ("co_awaiter", "sync", "flag", "load"): "verification hook predicate (guarded by COCLS_VERIF)",
    ("co_awaiter", "force_sync", "flag", "load"): "verification hook predicate (guarded by COCLS_VERIF)",
}
ANCHORED_CLASSES = {"awaiter", "future_common", "future", "promise", "mutex", "reusable_storage_mtsafe",
                    "generator::promise_type", "sync_awaiter", "co_awaiter", "async::co_awaiter"}
FIELD_ORDER = [f for fs in SITES.values() for f in fs] + [FENCE_SITE[2]]

# functions that publish an awaiter node with a CAS; the node must not be touched afterwards
PUBLISHERS = {("awaiter", "subscribe_check_ready"): "subcr", ("mutex", "subscribe"): "mutex_subscribe",
              ("awaiter", "subscribe"): "awaiter_subscribe"}
NODE_FIELDS = {"_next", "_handle_addr", "_resume_fn"}

# ---- guarded classes for the lockset part: class chain -> (mutex member, ignored members)
GUARDED = {
    "queue": {"mutex": "_mx"},
    "limited_queue": {"mutex": "_mx"},
    "thread_pool": {"mutex": "_mx"},
    # _glob_state/_elide_state: start()/stop() life-cycle state, set before the worker exists and read by the thread that
    # owns the scheduler object (construction/destruction rule); outside the anchored range scheduler.h:89-140
    "scheduler": {"mutex": "_mx", "exclude": ["_glob_state", "_elide_state"]},
    "publisher::queue": {"mutex": "_mx"},
}


# ---- owner discipline of the lock-free classes: plain (non-atomic) member fields that belong to whoever currently
# owns the object in the sense of the release/acquire protocols of RADefs.v.  Per class:
#   fields     owner-private plain fields
#   entry      methods that are entered in owner context (role in the protocol given as comment); every other method is
#              entered in NON-owner context
#   post_held  methods that return in owner context (their callers continue as owner)
#   atomic     effect of an atomic operation on the context: gain | drop | drop_on_true | gain_on_false | gain_on_true | none
#              (conditional effects apply on the branch of the enclosing if / loop condition; outside a condition a conditional
#              drop is taken unconditionally and a conditional gain is ignored: both err towards "not owner")
#   base_calls qualified calls of base-class methods that access the fields
#   cond_gain  local variables whose truth means "this caller owns the shared object"
#   drop_calls calls (on other objects) that hand the object over
OWNER_POLICY = {
    "mutex": {
        "fields": ["_queue"],
        "entry": {"unlock": "owner releases"},
        "post_held": ["build_queue"],
        "atomic": {("unlock", "_requests", "compare_exchange_strong"): "drop_on_true",   # after a successful unlock CAS the caller owns nothing
                   ("build_queue", "_requests", "exchange"): "gain"},                     # after-acquire: P3 pc TB -> TC
    },
    "awaiter": {
        "fields": ["_next", "_handle_addr", "_resume_fn"],
        "entry": {"subscribe": "before-publish", "subscribe_check_ready": "before-publish", "resume": "after-acquire (chain walk)",
                  "set_handle": "before-publish", "set_resume_fn": "before-publish"},
        "atomic": {("subscribe", "chain", "compare_exchange_weak"): "drop_on_true",       # P2: S1 -> S2, never touched again
                   ("subscribe_check_ready", "chain", "compare_exchange_weak"): "drop_on_true"},
    },
    "future_common": {"fields": ["_state"], "entry": {}, "atomic": {}},
    "future": {
        "fields": ["_state", "_value", "_ptr_value", "_exception"],
        "entry": {"set": "before-publish (winner of promise::claim)", "set_ref": "before-publish", "set_ptr": "before-publish",
                  "value": "after-acquire (caller learnt ready)", "result_of": "constructing thread", "operator<<": "constructing thread"},
        "atomic": {},
    },
    # future<T>::has_value() awaiter: reaches the future through its reference member `_owner`; the state tag may be read only
    # after ready() returned true (acquire load) or sync()/wait() returned
    "future::awaitable_bool": {
        "fields": ["_state", "_value", "_ptr_value", "_exception"],
        "via": "_owner",
        "entry": {"await_resume": "after-acquire (resumed / await_ready was true)"},
        "atomic": {},
        "member_calls": {"ready": "gain_on_true", "sync": "gain", "wait": "gain", "force_sync": "gain", "force_wait": "gain"},
    },
    # helper awaiter of cocls::discard(): it publishes ITSELF in its constructor (subscribe(this)) and deletes itself when
    # resumed by the resolver; after the publishing call nothing of the object may be touched by the constructing thread
    "discard::Awt": {
        "fields": "*",                      # every data member of the class + the awaiter node fields
        "include_ctor": True,
        "entry": {"Awt": "before-publish (constructing thread)", "fin": "after-acquire (resumed by the resolver)"},
        "atomic": {},
        "publish_calls": ["subscribe", "await_suspend"],          # with `this` as argument: drop on true (accepted)
    },
    "reusable_storage_mtsafe": {
        "fields": ["_ptr", "_capacity"],
        "entry": {},
        "atomic": {("alloc", "_busy", "exchange"): "gain_on_false",                        # P4: T0 -> T1
                   ("dealloc", "_busy", "store"): "drop"},                                 # P4: T2 -> T0
        "base_calls": {"alloc": "_ptr", "dealloc": "_ptr"},
        "cond_gain": {"dealloc": ["me"]},          # the trailer holds the owner pointer only for the holder of the shared block
    },
    "generator::promise_type": {
        # the generator object is used by one party at a time (the caller while it is idle, the generator body while it runs);
        # what the discipline checks is the hand-over inside next_sync / unblock_sync
        "default_entry": True,
        "fields": ["_ret", "_exp", "_done", "_caller"],
        "entry": {"next_sync": "caller while the generator is idle", "next_async": "caller while idle", "next_future": "caller while idle",
                  "unblock_sync": "generator side, before set", "unblock_future": "generator side",
                  "yield_value": "generator side", "return_void": "generator side", "unhandled_exception": "generator side",
                  "done": "whoever holds the generator", "value": "caller after wait", "set_arg": "caller while idle",
                  "final_suspend": "generator side", "get_return_object": "constructing thread", "resume_caller": "generator side",
                  "get_exception": "caller after wait", "get": "caller after wait", "can_continue": "whoever holds the generator",
                  "rethrow_if_exception": "caller after wait"},
        "atomic": {("unblock_sync", "_block", "store"): "drop",                            # P5: G2 -> G0
                   ("next_sync", "_block", "wait"): "gain"},                               # P5: C2 -> C3
        "drop_calls": {"next_sync": ["resume"]},                                           # h.resume(): the generator runs (maybe elsewhere)
    },
}


def run_clang(repo, tmp, ndebug=True):
    tu = os.path.join(tmp, "sync_tu.cpp")
    open(tu, "w").write(TU)
    cmd = ["clang++", "-std=c++20", "-fsyntax-only"] + (["-DNDEBUG"] if ndebug else []) + ["-w", "-I", os.path.join(repo, "src"),
           "-Xclang", "-ast-dump=json", "-Xclang", "-ast-dump-filter=cocls::", tu]
    p = subprocess.run(cmd, stdout=subprocess.PIPE, stderr=subprocess.PIPE, timeout=300)
    if p.returncode != 0:
        raise RuntimeError("clang failed: " + p.stderr.decode(errors="replace")[-2000:])
    s = p.stdout.decode(errors="replace")
    dec = json.JSONDecoder()
    i, objs = 0, []
    n = len(s)
    while True:
        while i < n and s[i].isspace():
            i += 1
        if i >= n:
            break
        if s[i] != "{":   # "Dumping cocls::xyz:" header lines of the filter
            j = s.find("\n", i)
            i = n if j < 0 else j + 1
            continue
        o, i = dec.raw_decode(s, i)
        objs.append(o)
    return objs


def strip_tpl(name):
    return re.sub(r"<.*>$", "", name or "")


RECORD_KINDS = {"CXXRecordDecl", "ClassTemplateSpecializationDecl", "ClassTemplatePartialSpecializationDecl"}
FUNC_KINDS = {"CXXMethodDecl", "FunctionDecl", "CXXConstructorDecl", "CXXDestructorDecl", "CXXConversionDecl"}


def unwrap(n):
    while n.get("kind") in ("ImplicitCastExpr", "ParenExpr", "ExprWithCleanups", "MaterializeTemporaryExpr",
                            "CXXBindTemporaryExpr", "ConstantExpr") and n.get("inner"):
        n = n["inner"][0]
    return n


VARDECLS = {}     # decl id -> VarDecl node (locals, static members, namespace-scope constants) of the current dump


def collect_vardecls(objs):
    VARDECLS.clear()
    stack = list(objs)
    while stack:
        n = stack.pop()
        if not isinstance(n, dict):
            continue
        if n.get("kind") == "VarDecl" and "id" in n:
            VARDECLS.setdefault(n["id"], n)
        stack.extend(n.get("inner", []))


def order_of(n, depth=0):
    """memory order denoted by an argument expression: an enumerator / std::memory_order_xxx constant directly, or through
    const / constexpr local variables, static constexpr members and default arguments (followed to their initialiser).
    Returns None when the expression is not a memory order at all, "?what" when it is one that is not a compile-time
    constant the translator can evaluate (reported loudly by the caller)."""
    n = unwrap(n)
    while n.get("kind") in ("CXXStaticCastExpr", "CStyleCastExpr", "CXXFunctionalCastExpr", "ConstantExpr", "SubstNonTypeTemplateParmExpr") and n.get("inner"):
        n = unwrap(n["inner"][-1])
    k = n.get("kind")
    ty = n.get("type", {}).get("qualType", "")
    if k == "CXXDefaultArgExpr":
        sub = [c for c in n.get("inner", []) if isinstance(c, dict)]
        if sub:
            return order_of(sub[0], depth + 1)
        return "SeqCst"          # std::atomic's own default
    if k in ("DeclRefExpr", "MemberExpr"):
        ref = n.get("referencedDecl", {}) if k == "DeclRefExpr" else {"id": n.get("referencedMemberDecl"), "name": n.get("name", "")}
        nm = ref.get("name", "") or ""
        short = nm.replace("memory_order_", "")
        if ref.get("kind") in ("EnumConstantDecl", None, "VarDecl") and short in ORDERS and ("memory_order" in ty or nm.startswith("memory_order")):
            return ORDERS[short]
        vd = VARDECLS.get(ref.get("id"))
        if vd is not None and depth < 8:
            vty = vd.get("type", {}).get("qualType", "")
            init = [c for c in vd.get("inner", []) if isinstance(c, dict) and not c.get("kind", "").endswith("Attr")]
            is_const = vty.startswith("const ") or vd.get("constexpr") or " const" in vty
            if init:
                r = order_of(init[-1], depth + 1)
                if r is not None:
                    if r.startswith("?"):
                        return r
                    return r if is_const else "?non-const variable " + nm
        if "memory_order" in ty:
            return "?" + (nm or "expression")
        return None
    if "memory_order" in ty:
        return "?" + (k or "expression")
    return None


def obj_name(n):
    n = unwrap(n)
    k = n.get("kind")
    if k == "MemberExpr":
        return n.get("name")
    if k == "DeclRefExpr":
        return n.get("referencedDecl", {}).get("name")
    if k == "CXXDependentScopeMemberExpr":
        return n.get("member")
    if k == "UnaryOperator" and n.get("inner"):
        return obj_name(n["inner"][0])
    return None


class Walker:
    def __init__(self, objs):
        self.objs = objs
        collect_vardecls(objs)
        self.ctxname = {}      # decl id -> class chain
        self.found = {}        # site key -> list of order tuples
        self.fences = {}       # (class, fn) -> list of (order, in_branch)
        self.seen_fn = set()
        self.funcs = {}        # (class chain, fn) -> list of function decl nodes with body
        self.records = {}      # names of function-local classes -> record nodes
        for o in objs:
            self.index(o, [])
        for o in objs:
            self.walk_decl(o, None)

    # pass 1: names of record contexts
    def index(self, n, chain):
        k = n.get("kind")
        if k in RECORD_KINDS and n.get("name"):
            chain = chain + [strip_tpl(n["name"])]
            self.ctxname[n["id"]] = "::".join(chain)
            if "previousDecl" in n:
                self.ctxname.setdefault(n["previousDecl"], "::".join(chain))
        for c in n.get("inner", []):
            if isinstance(c, dict) and c.get("kind", "").endswith("Decl"):
                self.index(c, chain)

    def walk_decl(self, n, cls):
        k = n.get("kind")
        if k in RECORD_KINDS and n.get("name"):
            cls = self.ctxname.get(n["id"], strip_tpl(n["name"]))
        if k in FUNC_KINDS:
            c = cls
            if "parentDeclContextId" in n and n["parentDeclContextId"] in self.ctxname:
                c = self.ctxname[n["parentDeclContextId"]]
            body = [x for x in n.get("inner", []) if x.get("kind") in ("CompoundStmt", "CXXTryStmt", "CoroutineBodyStmt")]
            if body and n["id"] not in self.seen_fn and c is not None:
                self.seen_fn.add(n["id"])
                fn = strip_tpl(n.get("name", ""))
                self.funcs.setdefault((c, fn), []).append(n)
                for x in n.get("inner", []):
                    if x.get("kind") not in ("ParmVarDecl", "FullComment"):
                        self.walk_stmt(x, c, fn, False)
            # classes defined locally in the function body (e.g. the helper awaiter of cocls::discard): "<function>::<class>"
            if body and ("local", n["id"]) not in self.seen_fn:
                self.seen_fn.add(("local", n["id"]))
                fnm = strip_tpl(n.get("name", ""))
                stack = list(body)
                while stack:
                    x = stack.pop()
                    if not isinstance(x, dict): continue
                    if x.get("kind") == "CXXRecordDecl" and x.get("name") and x.get("inner"):
                        lname = (c + "::" if c else "") + fnm + "::" + x["name"]
                        self.ctxname[x["id"]] = lname
                        self.records.setdefault(lname, []).append(x)
                        self.walk_decl(x, lname)
                        continue
                    if x.get("kind") == "LambdaExpr": continue
                    stack.extend(x.get("inner", []))
            return
        for ch in n.get("inner", []):
            if isinstance(ch, dict):
                self.walk_decl(ch, cls)

    def record(self, cls, fn, obj, op, orders):
        self.found.setdefault((cls, fn, obj, op), []).append(tuple(orders))

    def walk_stmt(self, n, cls, fn, in_if):
        k = n.get("kind")
        inner = n.get("inner", [])
        if k in ("CXXMemberCallExpr", "CallExpr") and inner:
            callee = unwrap(inner[0])
            ck = callee.get("kind")
            op = None
            if ck == "MemberExpr":
                op, base = callee.get("name"), (callee.get("inner") or [{}])[0]
            elif ck == "CXXDependentScopeMemberExpr":
                op, base = callee.get("member"), (callee.get("inner") or [{}])[0]
            if op in ATOMIC_OPS:
                b = unwrap(base)
                bty = b.get("type", {}).get("qualType", "")
                if "atomic" in bty or "awaiter_collector" in bty:
                    args = inner[1:]
                    ords = [o for o in (order_of(a) for a in args) if o is not None]
                    if op in CAS_OPS:
                        if len(ords) == 0: ords = ["SeqCst", "SeqCst"]
                        elif len(ords) == 1: ords = [ords[0], cas_failure(ords[0])]
                    elif len(ords) == 0:
                        ords = ["SeqCst"]
                    self.record(cls, fn, obj_name(b), op, ords)
            if ck == "DeclRefExpr" and callee.get("referencedDecl", {}).get("name") == "atomic_thread_fence":
                o = order_of(inner[1]) if len(inner) > 1 else None
                self.fences.setdefault((cls, fn), []).append((o or "?", in_if))
        if k in RECORD_KINDS or k in FUNC_KINDS and False:
            return
        for c in inner:
            if not isinstance(c, dict):
                continue
            if c.get("kind") in RECORD_KINDS and c.get("kind") != "CXXRecordDecl":
                continue
            self.walk_stmt(c, cls, fn, in_if or k == "IfStmt")


def touches_after_publish(fnode):
    """statements (top level of the body) after the loop that contains the publishing CAS: does any of them access
    a field of the published node?  For subscribe_check_ready the loop is followed by `return true` only."""
    body = [x for x in fnode.get("inner", []) if x.get("kind") == "CompoundStmt"]
    if not body:
        return None
    stmts = body[0].get("inner", [])

    def has_cas(n):
        if n.get("kind") in ("CXXMemberCallExpr", "CallExpr") and n.get("inner"):
            c = unwrap(n["inner"][0])
            if (c.get("name") or c.get("member")) in CAS_OPS:
                return True
        return any(has_cas(c) for c in n.get("inner", []) if isinstance(c, dict))

    def node_access(n):
        if n.get("kind") == "MemberExpr" and n.get("name") in NODE_FIELDS:
            return True
        return any(node_access(c) for c in n.get("inner", []) if isinstance(c, dict))
    idx = [i for i, s in enumerate(stmts) if has_cas(s)]
    if not idx:
        return None
    return any(node_access(s) for s in stmts[idx[-1] + 1:])


# ------------------------------------------------------------------------------------------------ lockset CFGs
class Cfg:
    """nodes: list of [event, succs]; event = ("Lock",)|("Unlock",)|("Release",)|("Rd",f)|("Wr",f)|("Call",g)|("Skip",)|("End",)"""
    def __init__(self):
        self.nodes = []

    def new(self, ev):
        self.nodes.append([ev, []])
        return len(self.nodes) - 1

    def edge(self, a, b):
        if b not in self.nodes[a][1]:
            self.nodes[a][1].append(b)


WRITE_OPS = {"=", "+=", "-=", "*=", "/=", "|=", "&=", "^=", "<<=", ">>=", "%="}


class MethodBuilder:
    """Builds the CFG of one method.  `frontier` = list of node ids whose successor is the next emitted node."""
    def __init__(self, cls, mutex, fields, methods, lockparams):
        self.cls, self.mutex, self.fields, self.methods = cls, mutex, fields, methods
        self.g = Cfg()
        self.entry = self.g.new(("Skip",))
        self.front = [self.entry]
        self.end = None
        self.guards = []          # stack of scopes; each scope = list of guard variable names
        self.guardvars = set(lockparams)   # names denoting a unique_lock/lock_guard over the class mutex
        self.loops = []           # stack of (break_targets list, continue node, guard depth)
        self.problems = []
        self.lambda_base = []     # guard-scope depth at the entry of each enclosing lambda body
        self.policy = None        # owner-discipline mode (lock-free classes): OWNER_POLICY entry
        self.fn = None
        self.cond_eff = None      # while evaluating a branch condition: conditional effects found in it
        self.cond_pol = (True, False)
        self.taint = {}           # local pointer / reference variables that point INTO guarded state: name -> (field, is_ref)
        self.ret_guarded = {}     # methods of the class that return a pointer / reference into guarded state: name -> field

    def emit(self, ev):
        n = self.g.new(ev)
        for f in self.front:
            self.g.edge(f, n)
        self.front = [n]
        return n

    def finish(self):
        self.end = self.g.new(("End",))
        for f in self.front:
            self.g.edge(f, self.end)
        for n in getattr(self, "returns", []):
            self.g.edge(n, self.end)
        self.front = []

    # ---- expressions: emit field accesses / lock operations in evaluation order (approximate: children first)
    def is_guard_type(self, ty):
        return "unique_lock" in ty or "lock_guard" in ty or "scoped_lock" in ty

    def expr(self, n, write=False):
        if not isinstance(n, dict):
            return
        k = n.get("kind")
        inner = [c for c in n.get("inner", []) if isinstance(c, dict)]
        if k in ("CompoundStmt", "IfStmt", "WhileStmt", "ForStmt", "DoStmt", "CXXForRangeStmt", "ReturnStmt", "BreakStmt",
                 "ContinueStmt", "SwitchStmt", "DeclStmt", "AttributedStmt", "CXXTryStmt", "CoreturnStmt"):
            return self.stmt(n)      # statement reached through an expression walk (statement expression, attribute ...)
        if k == "LambdaExpr":
            # a lambda body runs where it is called; the only lambdas that matter here are condition-variable
            # predicates (run under the lock by wait) and callbacks run inline: walk the body in place
            for c in inner:
                if c.get("kind") == "CompoundStmt":
                    save = getattr(self, "returns", [])
                    self.returns = []
                    self.lambda_base.append(len(self.guards))
                    self.stmt(c)
                    self.lambda_base.pop()
                    # a `return` inside the lambda leaves the lambda only
                    self.front = self.front + self.returns
                    self.returns = save
            return
        if k in ("CXXMemberCallExpr", "CallExpr") and inner:
            callee = unwrap(inner[0])
            ck = callee.get("kind")
            args = inner[1:]
            if ck in ("MemberExpr", "CXXDependentScopeMemberExpr", "UnresolvedMemberExpr"):
                op = callee.get("name") or callee.get("member")
                base = unwrap((callee.get("inner") or [{}])[0]) if callee.get("inner") else {}
                bname = obj_name(base) if base else None
                bty = base.get("type", {}).get("qualType", "") if base else ""
                if self.policy is not None:
                    raw = (callee.get("inner") or [{}])[0]
                    if raw.get("kind") == "ImplicitCastExpr" and "DerivedToBase" in raw.get("castKind", "") and \
                            base.get("kind") == "CXXThisExpr" and op in self.policy.get("base_calls", {}):
                        for a in args: self.expr(a)
                        self.emit(("Wr", self.policy["base_calls"][op]))
                        return
                    if ("atomic" in bty or "awaiter_collector" in bty) and (op in ATOMIC_OPS or op in ("notify_all", "notify_one")):
                        for a in args: self.expr(a)
                        eff = self.policy.get("atomic", {}).get((self.fn, bname, op), "none")
                        if eff == "gain": self.emit(("Gain",))
                        elif eff == "drop": self.emit(("Release",))
                        elif eff != "none":
                            if self.cond_eff is not None: self.cond_eff.append((eff,) + self.cond_pol)
                            elif eff.startswith("drop"): self.emit(("Release",))
                        return
                    if self.policy.get("via") and bname == self.policy["via"] and op in self.policy.get("member_calls", {}) \
                            and base.get("kind") in ("MemberExpr", "CXXDependentScopeMemberExpr"):
                        for a in args: self.expr(a)
                        eff = self.policy["member_calls"][op]
                        if eff == "gain": self.emit(("Gain",))
                        elif self.cond_eff is not None: self.cond_eff.append((eff,) + self.cond_pol)
                        return
                    if op in self.policy.get("publish_calls", []) and any(unwrap(a).get("kind") == "CXXThisExpr" for a in args):
                        self.expr(raw)
                        if self.cond_eff is not None: self.cond_eff.append(("drop_on_true",) + self.cond_pol)
                        else: self.emit(("Release",))
                        return
                    if op in self.policy.get("drop_calls", {}).get(self.fn, []) and base.get("kind") != "CXXThisExpr":
                        for a in args: self.expr(a)
                        self.emit(("Release",))
                        return
                # operations on a guard variable
                if bname in self.guardvars and base.get("kind") == "DeclRefExpr":
                    if op == "unlock": self.emit(("Unlock",)); return
                    if op == "lock": self.emit(("Lock",)); return
                    if op in ("owns_lock",): return
                # the mutex itself
                if bname == self.mutex and base.get("kind") in ("MemberExpr", "CXXDependentScopeMemberExpr"):
                    if op == "lock": self.emit(("Lock",)); return
                    if op == "unlock": self.emit(("Unlock",)); return
                # condition variable wait: releases and re-acquires the lock
                if "condition_variable" in bty and op is None:
                    # UnresolvedMemberExpr (overloaded member called with dependent arguments, e.g. inside a generic lambda):
                    # clang's JSON has no member name; a call that passes a guard variable is a wait
                    if any(unwrap(a).get("kind") == "DeclRefExpr" and obj_name(a) in self.guardvars for a in args):
                        op = "wait_until"
                if "condition_variable" in bty and op in ("wait", "wait_for", "wait_until"):
                    self.emit(("Unlock",)); self.emit(("Lock",))
                    for a in args[1:]:
                        self.expr(a)
                    return
                if "condition_variable" in bty:
                    if op and op.startswith("notify") and getattr(self, "notify_guarded", False):
                        # the destructor of this class waits on the condition variable: a waiter woken by the flag may destroy the
                        # object, so the notification itself must happen before the lock is released
                        self.emit(("Rd", "notify(%s)" % bname))
                    return
                # call of another method of the same class on this
                if base.get("kind") == "CXXThisExpr" or (ck == "MemberExpr" and not callee.get("inner")):
                    for a in args: self.expr(a)
                    if op in self.methods:
                        self.emit(("Call", op))
                    return
                # member function call on a field: write unless the callee is const
                cty = callee.get("type", {}).get("qualType", "")
                if base.get("kind") in ("MemberExpr",) and self.is_this_field(base):
                    for a in args: self.expr(a)
                    fty = ""
                    rm = callee.get("referencedMemberDecl")
                    const = bool(re.search(r"\)\s*const", self.member_types.get(rm, ""))) if hasattr(self, "member_types") else False
                    self.access(base, not const)
                    return
            # generic call: arguments (a field passed anywhere counts as a write unless obviously by value)
            for c in inner:
                self.expr(c, write=False)
            return
        if k == "CXXOperatorCallExpr" and inner:
            # operator on a field (e.g. _q.push_back via operator<<, _exit = x handled by BinaryOperator for scalars)
            opname = unwrap(inner[0]).get("referencedDecl", {}).get("name", "")
            for i, c in enumerate(inner[1:]):
                self.expr(c, write=(i == 0 and opname in ("operator=", "operator+=", "operator++", "operator--",
                                                          "operator<<", "operator[]")))
            return
        if k == "BinaryOperator" and len(inner) == 2 and n.get("opcode") in ("&&", "||") and self.cond_eff is not None:
            t, f = self.cond_pol
            if n["opcode"] == "&&":    # operands are true wherever the conjunction is true
                sub = (True if t is True else None, True if f is True else None)
            else:                      # operands are false wherever the disjunction is false
                sub = (False if t is False else None, False if f is False else None)
            self.cond_pol = sub
            self.expr(inner[0]); self.expr(inner[1])
            self.cond_pol = (t, f)
            return
        if k == "UnaryOperator" and inner and n.get("opcode") == "!" and self.cond_eff is not None:
            t, f = self.cond_pol
            self.cond_pol = (None if t is None else not t, None if f is None else not f)
            self.expr(inner[0])
            self.cond_pol = (t, f)
            return
        if self.policy is None and self.mutex and k == "BinaryOperator" and n.get("opcode") == "=" and len(inner) == 2:
            lhs = unwrap(inner[0])
            if lhs.get("kind") == "DeclRefExpr" and obj_name(lhs) in getattr(self, "ptr_locals", set()) | set(self.taint):
                self.expr(inner[1])
                src = self.guarded_source(inner[1])
                if src: self.taint[obj_name(lhs)] = (src, False)
                else: self.taint.pop(obj_name(lhs), None)
                return
        if self.policy is None and self.taint:
            tgt = None
            if k == "UnaryOperator" and n.get("opcode") == "*" and inner: tgt = unwrap(inner[0])
            elif k == "MemberExpr" and n.get("isArrow") and inner: tgt = unwrap(inner[0])
            elif k == "ArraySubscriptExpr" and inner: tgt = unwrap(inner[0])
            if tgt is not None and tgt.get("kind") == "DeclRefExpr" and obj_name(tgt) in self.taint:
                self.emit(("Wr" if write else "Rd", self.taint[obj_name(tgt)][0]))
                return
            if k == "DeclRefExpr" and obj_name(n) in self.taint and self.taint[obj_name(n)][1]:
                self.emit(("Wr" if write else "Rd", self.taint[obj_name(n)][0]))
                return
        if k in ("BinaryOperator", "CompoundAssignOperator") and len(inner) == 2:
            if n.get("opcode") in WRITE_OPS:
                self.expr(inner[1]); self.expr(inner[0], write=True)
            else:
                self.expr(inner[0]); self.expr(inner[1])
            return
        if k == "UnaryOperator" and inner:
            self.expr(inner[0], write=n.get("opcode") in ("++", "--"))
            return
        if k == "ConditionalOperator" and len(inner) == 3:
            self.expr(inner[0])
            f0 = list(self.front)
            self.expr(inner[1]); f1 = self.front
            self.front = f0
            self.expr(inner[2])
            self.front = self.front + [x for x in f1 if x not in self.front]
            return
        if k in ("MemberExpr", "CXXDependentScopeMemberExpr"):
            if self.is_this_field(n):
                self.access(n, write)
                return
        for c in inner:
            self.expr(c, write)

    @staticmethod
    def is_ptr_or_ref(ty):
        t = ty.replace("const", "").strip()
        return t.endswith("*") or t.endswith("&")

    def guarded_source(self, x):
        """field of the guarded state that the value of expression x points / refers into, if any"""
        if not isinstance(x, dict):
            return None
        k = x.get("kind")
        if k in ("MemberExpr", "CXXDependentScopeMemberExpr") and self.is_this_field(x):
            return x.get("name") or x.get("member")
        if k == "DeclRefExpr" and obj_name(x) in self.taint:
            return self.taint[obj_name(x)][0]
        if k in ("CXXMemberCallExpr", "CallExpr") and x.get("inner"):
            c = unwrap(x["inner"][0])
            nm = c.get("name") or c.get("member")
            b = unwrap((c.get("inner") or [{}])[0]) if c.get("inner") else {}
            if nm in self.ret_guarded and b.get("kind") in ("CXXThisExpr", None):
                return self.ret_guarded[nm]
            if c.get("kind") in ("MemberExpr", "CXXDependentScopeMemberExpr"):
                # member call on a field (operator[] / front() / at() ...): refers into that field
                return self.guarded_source(b)
            return None
        if k == "LambdaExpr":
            return None
        for c in x.get("inner", []):
            r = self.guarded_source(c)
            if r: return r
        return None

    def eval_cond(self, cond):
        """walks a branch condition; returns (conditional effects, unused).  Every conditional effect found in the condition
        is recorded with the truth value of ITS operation on the true branch and on the false branch of the whole condition
        (True / False / None = unknown), computed through !, && and ||."""
        if self.policy is None:
            self.expr(cond)
            return [], False
        self.cond_eff = []
        self.cond_pol = (True, False)
        c = unwrap(cond)
        pol = self.cond_pol
        while c.get("kind") == "UnaryOperator" and c.get("opcode") == "!" and c.get("inner"):
            pol = (None if pol[0] is None else not pol[0], None if pol[1] is None else not pol[1])
            c = unwrap(c["inner"][0])
        if c.get("kind") == "DeclRefExpr" and obj_name(c) in self.policy.get("cond_gain", {}).get(self.fn, []):
            effs, self.cond_eff = [("gain_on_true", pol[0], pol[1])], None
            return effs, False
        self.expr(cond)
        effs, self.cond_eff = self.cond_eff, None
        return effs, False

    def apply_eff(self, effs, neg, cond_true):
        for (e, on_t, on_f) in effs:
            v = on_t if cond_true else on_f          # value of the operation on this branch, None = unknown
            if e == "drop_on_true" and v is not False: self.emit(("Release",))       # unknown: conservative drop
            elif e == "gain_on_false" and v is False: self.emit(("Gain",))
            elif e == "gain_on_true" and v is True: self.emit(("Gain",))

    def is_this_field(self, n):
        nm = n.get("name") or n.get("member")
        if nm not in self.fields:
            return False
        b = n.get("inner")
        if not b:
            return not (self.policy and self.policy.get("via"))      # implicit this in a dependent context
        b = unwrap(b[0])
        via = self.policy.get("via") if self.policy else None
        if via is not None:
            # fields of the object reached through the reference member `via` (this->_owner._state)
            return b.get("kind") in ("MemberExpr", "CXXDependentScopeMemberExpr") and obj_name(b) == via
        return b.get("kind") == "CXXThisExpr"

    def access(self, n, write):
        nm = n.get("name") or n.get("member")
        self.emit(("Wr" if write else "Rd", nm))

    # ---- statements
    def leave_scopes(self, depth):
        """emit Release for every guard of the scopes deeper than `depth` (innermost first)"""
        for sc in reversed(self.guards[depth:]):
            for g in reversed(sc):
                self.emit(("Release",))

    def stmt(self, n):
        if not isinstance(n, dict):
            return
        k = n.get("kind")
        inner = [c for c in n.get("inner", []) if isinstance(c, dict)]
        if k == "AttributedStmt":          # [[likely]] / [[unlikely]] / [[fallthrough]]
            for c in inner:
                if c.get("kind", "").endswith("Stmt") or c.get("kind", "").endswith("Expr") or c.get("kind", "").endswith("Operator"):
                    self.stmt(c)
            return
        if k == "CompoundStmt":
            self.guards.append([])
            for c in inner:
                self.stmt(c)
            if self.front:
                for g in reversed(self.guards[-1]):
                    self.emit(("Release",))
            for g in self.guards[-1]:
                self.guardvars.discard(g)
            self.guards.pop()
            return
        if k == "DeclStmt":
            for d in inner:
                if d.get("kind") == "VarDecl":
                    ty = d.get("type", {}).get("qualType", "")
                    init = [c for c in d.get("inner", []) if isinstance(c, dict)]
                    if self.is_guard_type(ty):
                        # constructor argument must be the class mutex
                        names = []
                        def coll(x):
                            nm = obj_name(x) if x.get("kind") in ("MemberExpr", "CXXDependentScopeMemberExpr") else None
                            if nm: names.append(nm)
                            for c in x.get("inner", []):
                                if isinstance(c, dict): coll(c)
                        for c in init: coll(c)
                        if self.mutex in names:
                            self.emit(("Lock",))
                            self.guardvars.add(d["name"])
                            if self.guards: self.guards[-1].append(d["name"])
                        continue
                    for c in init:
                        self.expr(c)
                    if self.policy is None and self.mutex and d.get("name") and self.is_ptr_or_ref(ty):
                        src = None
                        for c in init:
                            src = src or self.guarded_source(c)
                        if src: self.taint[d["name"]] = (src, ty.replace("const", "").strip().endswith("&"))
                        else: self.taint.pop(d["name"], None)
                        if not init: self.ptr_locals = getattr(self, "ptr_locals", set()) | {d["name"]}
            return
        if k == "IfStmt":
            # children: [init/cond-var]? cond then else?
            has_else = n.get("hasElse", False)
            cs = inner
            if has_else:
                cond, th, el = cs[-3], cs[-2], cs[-1]
                pre = cs[:-3]
            else:
                cond, th, el = cs[-2], cs[-1], None
                pre = cs[:-2]
            for p in pre: self.stmt(p)
            effs, neg = self.eval_cond(cond)
            f0 = list(self.front)
            self.apply_eff(effs, neg, True)
            self.stmt_scoped(th)
            f1 = self.front
            self.front = f0
            self.apply_eff(effs, neg, False)
            if el is not None:
                self.stmt_scoped(el)
            self.front = self.front + [x for x in f1 if x not in self.front]
            return
        if k == "SwitchStmt":
            body = inner[-1]
            for c in inner[:-1]: self.expr(c)
            f0 = list(self.front)
            brk = []
            self.loops.append((brk, None, len(self.guards)))
            has_default = False
            self.front = []
            def walk_case(c):
                nonlocal has_default
                while c.get("kind") in ("CaseStmt", "DefaultStmt"):
                    if c.get("kind") == "DefaultStmt": has_default = True
                    self.front = self.front + [x for x in f0 if x not in self.front]
                    subs = [x for x in c.get("inner", []) if isinstance(x, dict)]
                    c = subs[-1] if subs else {}
                self.stmt(c)
            for c in ([x for x in body.get("inner", []) if isinstance(x, dict)] if body.get("kind") == "CompoundStmt" else [body]):
                walk_case(c)
            self.loops.pop()
            self.front = self.front + brk + ([] if has_default else [x for x in f0 if x not in self.front])
            return
        if k in ("WhileStmt", "ForStmt", "DoStmt", "CXXForRangeStmt"):
            head = self.emit(("Skip",))
            brk = []
            self.loops.append((brk, head, len(self.guards)))
            if k == "WhileStmt":
                effs, neg = self.eval_cond(inner[-2]); condf = list(self.front)
                self.apply_eff(effs, neg, True)
                self.stmt_scoped(inner[-1])
                for f in self.front: self.g.edge(f, head)
                self.front = condf
                self.apply_eff(effs, neg, False)
            elif k == "DoStmt":
                self.stmt_scoped(inner[0]); effs, neg = self.eval_cond(inner[1])
                condf = list(self.front)
                self.apply_eff(effs, neg, True)
                for f in self.front: self.g.edge(f, head)
                self.front = condf
                self.apply_eff(effs, neg, False)
            else:
                for c in inner[:-1]:
                    if c.get("kind") == "DeclStmt": self.stmt(c)
                    else: self.expr(c)
                exitf = list(self.front)
                self.stmt_scoped(inner[-1])
                for f in self.front: self.g.edge(f, head)
                self.front = exitf
            self.loops.pop()
            self.front = self.front + brk
            return
        if k == "ReturnStmt":
            for c in inner: self.expr(c)
            self.leave_scopes(self.lambda_base[-1] if self.lambda_base else 0)
            if not hasattr(self, "returns"): self.returns = []
            self.returns += self.front
            self.front = []
            return
        if k == "CXXThrowExpr" or (k == "ExprWithCleanups" and inner and unwrap(inner[0]).get("kind") == "CXXThrowExpr"):
            self.leave_scopes(0)
            if not hasattr(self, "returns"): self.returns = []
            self.returns += self.front
            self.front = []
            return
        if k == "BreakStmt":
            if self.loops:
                brk, head, depth = self.loops[-1]
                self.leave_scopes(depth)
                brk += self.front
            self.front = []
            return
        if k == "ContinueStmt":
            real = [l for l in self.loops if l[1] is not None]
            if real:
                brk, head, depth = real[-1]
                self.leave_scopes(depth)
                for f in self.front: self.g.edge(f, head)
            self.front = []
            return
        if k == "CXXTryStmt":
            self.stmt(inner[0])
            f1 = self.front
            for h in inner[1:]:
                pass   # handlers of the guarded classes do not touch fields (checked: none present)
            return
        if k in ("CoreturnStmt",):
            for c in inner: self.expr(c)
            return
        if k in ("NullStmt",):
            return
        self.expr(n)

    def stmt_scoped(self, n):
        if n.get("kind") == "CompoundStmt":
            self.stmt(n)
        else:
            self.guards.append([])
            self.stmt(n)
            if self.front:
                for g in reversed(self.guards[-1]): self.emit(("Release",))
            self.guards.pop()


def annotate(g, entry, pre, posts=None):
    """forward propagation of the lock state over the lattice Held / Free / Any (= either, allowed only where the
    event does not care: Release, Skip, End); returns (annot list, problem or None)"""
    ann = [None] * len(g.nodes)
    ann[entry] = "Held" if pre else "Free"
    work = [entry]
    prob = None
    while work:
        n = work.pop()
        ev, succs = g.nodes[n]
        h = ann[n]
        if ev[0] == "Lock":
            if h != "Free" and not prob: prob = "Lock while possibly held at node %d" % n
            h2 = "Held"
        elif ev[0] == "Unlock":
            if h != "Held" and not prob: prob = "Unlock while possibly not held at node %d" % n
            h2 = "Free"
        elif ev[0] == "Release":
            h2 = "Free"
        elif ev[0] == "Gain":
            h2 = "Held"
        elif ev[0] in ("Rd", "Wr"):
            if h != "Held" and not prob: prob = "%s %s while the mutex is possibly not held (node %d)" % (ev[0], ev[1], n)
            h2 = h
        elif ev[0] == "Call" and posts is not None and ev[1] in posts:
            h2 = "Held" if posts[ev[1]] else "Free"     # callee contract; re-checked in Coq
        else:
            h2 = h
        for s in succs:
            if ann[s] is None:
                ann[s] = h2; work.append(s)
            elif ann[s] != h2 and ann[s] != "Any":
                ann[s] = "Any"; work.append(s)
    return [a or "Any" for a in ann], prob


CV_WAITS = ("wait", "wait_for", "wait_until")


def dtor_waits_on_cv(w, cls):
    """does the destructor of cls (through calls of methods of the same class) block in a condition-variable wait?
    Then a thread released by that wait may destroy the object, and every notify must be done under the lock."""
    short = cls.split("::")[-1]
    seen, todo = set(), ["~" + short]
    while todo:
        fn = todo.pop()
        if fn in seen: continue
        seen.add(fn)
        for fnode in w.funcs.get((cls, fn), []):
            stack = [fnode]
            while stack:
                n = stack.pop()
                if not isinstance(n, dict): continue
                if n.get("kind") in ("CXXMemberCallExpr", "CallExpr") and n.get("inner"):
                    c = unwrap(n["inner"][0])
                    nm = c.get("name") or c.get("member")
                    b = unwrap((c.get("inner") or [{}])[0]) if c.get("inner") else {}
                    if nm in CV_WAITS and "condition_variable" in b.get("type", {}).get("qualType", ""):
                        return True
                    if nm and (cls, nm) in w.funcs and b.get("kind") in ("CXXThisExpr", None):
                        todo.append(nm)
                stack.extend(n.get("inner", []))
    return False


def extract_classes(w):
    """returns dict class -> {fields, methods: {name: {nodes, annot, pre, post, public}}}, problems"""
    out, problems, guard_problems = {}, [], []
    # member tables per class from record decls
    records = {}
    def scan(n, chain):
        k = n.get("kind")
        if k in RECORD_KINDS and n.get("name"):
            chain = chain + [strip_tpl(n["name"])]
            key = "::".join(chain)
            if n.get("inner"):
                records.setdefault(key, []).append(n)
        for c in n.get("inner", []):
            if isinstance(c, dict) and c.get("kind", "").endswith("Decl"):
                scan(c, chain)
    for o in w.objs:
        scan(o, [])
    for cls, conf in GUARDED.items():
        recs = records.get(cls, [])
        fields, access, bases = {}, {}, []
        for r in recs:
            cur = "private" if r.get("tagUsed") == "class" else "public"
            for c in r.get("inner", []):
                if c.get("kind") == "AccessSpecDecl":
                    cur = c.get("access", cur)
                if c.get("kind") == "FieldDecl":
                    fields[c["name"]] = c.get("type", {}).get("qualType", "")
                if c.get("kind") in FUNC_KINDS and c.get("name"):
                    access.setdefault(strip_tpl(c["name"]), cur)
                if c.get("kind") == "FunctionTemplateDecl" and c.get("name"):
                    access.setdefault(strip_tpl(c["name"]), cur)
        if cls == "limited_queue":       # derived: shares the base's fields and mutex
            bf = out.get("queue", {}).get("fieldtypes", {})
            fields = dict(bf, **fields)
        mutex = conf["mutex"]
        if mutex not in fields:
            problems.append("class %s: mutex member %s not found" % (cls, mutex)); continue
        data = {f: t for f, t in fields.items()
                if f != mutex and "condition_variable" not in t and "std::mutex" not in t and "atomic" not in t
                and not t.startswith("const ") and f not in conf.get("exclude", [])}
        mnames = set(fn for (c, fn) in w.funcs if c == cls)
        notify_guarded = dtor_waits_on_cv(w, cls)
        # methods that hand out a pointer / reference into the guarded state
        ret_guarded = {}
        for (c, fn), nodes in w.funcs.items():
            if c != cls: continue
            for fnode in nodes:
                rty = fnode.get("type", {}).get("qualType", "").split("(")[0]
                if not MethodBuilder.is_ptr_or_ref(rty): continue
                probe = MethodBuilder(cls, mutex, set(data), mnames, [])
                stack = [fnode]
                while stack:
                    n = stack.pop()
                    if not isinstance(n, dict): continue
                    if n.get("kind") == "ReturnStmt":
                        src = None
                        for ch in n.get("inner", []):
                            src = src or probe.guarded_source(ch)
                        if src: ret_guarded[fn] = src
                    stack.extend(n.get("inner", []))
        if notify_guarded:
            for f, t in fields.items():
                if "condition_variable" in t:
                    data["notify(%s)" % f] = "pseudo field: notification on %s" % f
        methods = {}
        for (c, fn), nodes in sorted(w.funcs.items()):
            if c != cls:
                continue
            if fn == cls.split("::")[-1] or fn.startswith("~") or fn.startswith("operator"):
                continue          # construction / destruction are single-threaded by C++ object lifetime rules
            # prefer an instantiated body (non-dependent); all variants are checked
            variants = []
            for fnode in nodes:
                lockparams = [p["name"] for p in fnode.get("inner", []) if p.get("kind") == "ParmVarDecl"
                              and ("unique_lock" in p.get("type", {}).get("qualType", "")) and p.get("name")]
                mb = MethodBuilder(cls, mutex, set(data), mnames, lockparams)
                mb.notify_guarded = notify_guarded
                mb.ret_guarded = ret_guarded
                for x in fnode.get("inner", []):
                    if x.get("kind") == "CompoundStmt":
                        mb.stmt(x)
                    elif x.get("kind") == "CoroutineBodyStmt":     # coroutine: the user-written body is the first child
                        cb = [c for c in x.get("inner", []) if isinstance(c, dict) and c.get("kind") == "CompoundStmt"]
                        if cb: mb.stmt(cb[0])
                mb.finish()
                evs = [nd[0][0] for nd in mb.g.nodes]
                nonpublic = access.get(fn, "public") != "public"
                # helper convention: a non-public method that never locks but touches fields / calls helpers runs under
                # the caller's lock (the Coq check verifies every call site provides it)
                pre = bool(lockparams) or fn.endswith("_lk") or (
                    nonpublic and "Lock" not in evs and any(e in ("Rd", "Wr") for e in evs))
                mb.maybe_helper = nonpublic and "Lock" not in evs
                ann, prob = annotate(mb.g, mb.entry, pre)
                variants.append((mb, pre, ann, prob))
            # choose the variant with most nodes (the instantiated one resolves more member expressions)
            mb, pre, ann, prob = max(variants, key=lambda v: len(v[0].g.nodes))
            methods[fn] = {"nodes": mb.g.nodes, "annot": ann, "pre": pre, "post": ann[mb.end] == "Held", "entry": mb.entry,
                           "end": mb.end, "g": mb.g, "helper": mb.maybe_helper, "public": access.get(fn, "public") == "public" and not pre}
        # a non-public method that neither locks nor touches fields but calls a helper that needs the lock is a helper too
        for _ in range(6):
            ch = False
            for m, x in methods.items():
                if not x["pre"] and x["helper"] and any(nd[0][0] == "Call" and methods.get(nd[0][1], {}).get("pre") for nd in x["nodes"]):
                    x["pre"] = True; x["public"] = False; ch = True
            if not ch: break
        # callee contracts: iterate the annotation until the post states are stable
        for _ in range(6):
            posts = {m: x["post"] for m, x in methods.items()}
            for m, x in methods.items():
                x["annot"], x["prob"] = annotate(x["g"], x["entry"], x["pre"], posts)
                x["post"] = x["annot"][x["end"]] == "Held"
            if posts == {m: x["post"] for m, x in methods.items()}:
                break
        for m, x in methods.items():
            if x["prob"]:
                # not a translator failure: the skeleton is emitted as found and LocksetDefs.all_guarded rejects it
                guard_problems.append("class %s method %s: %s" % (cls, m, x["prob"]))
            if x["annot"][x["end"]] == "Any":
                guard_problems.append("class %s method %s: returns with the mutex both held and not held" % (cls, m))
        out[cls] = {"fields": sorted(data), "fieldtypes": fields, "methods": methods, "mutex": mutex}
    return out, problems, guard_problems


def extract_owner_classes(w):
    """owner-discipline skeletons of the lock-free classes (OWNER_POLICY); same CFG + certificate format as the lock
    skeletons, "Held" = owner context"""
    out, problems, viol = {}, [], []
    for cls, pol in OWNER_POLICY.items():
        names = sorted(set(fn for (c, fn) in w.funcs if c == cls))
        short = cls.split("::")[-1]
        names = [fn for fn in names if (fn != short or pol.get("include_ctor")) and not fn.startswith("~") and fn not in ("operator=",)]
        if pol.get("fields") == "*":
            fl = ["_next", "_handle_addr", "_resume_fn"]
            for r in w.records.get(cls, []):
                fl += [c["name"] for c in r.get("inner", []) if c.get("kind") == "FieldDecl" and c.get("name") and c["name"] not in fl]
            pol = dict(pol, fields=fl)
        if not names:
            problems.append("owner discipline: class %s not found" % cls); continue
        methods = {}
        for fn in names:
            variants = []
            for fnode in w.funcs[(cls, fn)]:
                mb = MethodBuilder(cls, None, set(pol["fields"]), set(names), [])
                mb.policy, mb.fn = pol, fn
                for x in fnode.get("inner", []):
                    if x.get("kind") == "CompoundStmt":
                        mb.stmt(x)
                    elif x.get("kind") == "CoroutineBodyStmt":
                        cb = [c for c in x.get("inner", []) if isinstance(c, dict) and c.get("kind") == "CompoundStmt"]
                        if cb: mb.stmt(cb[0])
                mb.finish()
                variants.append(mb)
            mb = max(variants, key=lambda v: (sum(1 for nd in v.g.nodes if nd[0][0] in ("Rd", "Wr")), len(v.g.nodes)))
            methods[fn] = {"g": mb.g, "nodes": mb.g.nodes, "entry": mb.entry, "end": mb.end, "pre": fn in pol["entry"] or pol.get("default_entry", False),
                           "public": False, "role": pol["entry"].get(fn, "owner (default of the class)" if pol.get("default_entry") else "non-owner")}
        # calls: a callee without any effect or access is neutral (Skip); a callee entered in non-owner context is
        # preceded by a Release (losing the context is always the conservative direction)
        def neutral(m, seen=()):
            x = methods.get(m)
            if x is None or m in seen: return True
            return all(nd[0][0] in ("Skip", "End", "Release") or (nd[0][0] == "Call" and neutral(nd[0][1], seen + (m,)))
                       for nd in x["nodes"]) and not x["pre"]
        neut = {m: neutral(m) for m in methods}
        for m, x in methods.items():
            g = x["g"]
            for i in range(len(g.nodes)):
                ev = g.nodes[i][0]
                if ev[0] == "Call":
                    if neut.get(ev[1], True):
                        g.nodes[i][0] = ("Skip",)
                    elif not methods[ev[1]]["pre"]:
                        j = g.new(ev); g.nodes[j][1] = g.nodes[i][1]
                        g.nodes[i][0] = ("Release",); g.nodes[i][1] = [j]
        def fix():
            for _ in range(6):
                posts = {m: x.get("post", x["pre"]) for m, x in methods.items()}
                for m, x in methods.items():
                    x["annot"], x["prob"] = annotate(x["g"], x["entry"], x["pre"], posts)
                    x["post"] = x["annot"][x["end"]] == "Held"
                if posts == {m: x["post"] for m, x in methods.items()}:
                    break
        fix()
        # a method whose outcome depends on a value (refused / accepted subscription, busy / free block ...) returns in
        # non-owner context on every path: conservative
        changed = False
        for m, x in methods.items():
            if x["annot"][x["end"]] == "Any" and m not in pol.get("post_held", []):
                g = x["g"]; r = g.new(("Release",))
                for nd in g.nodes[:-1]:
                    nd[1][:] = [r if t == x["end"] else t for t in nd[1]]
                g.nodes[r][1] = [x["end"]]; changed = True
        if changed: fix()
        for m, x in methods.items():
            if x["prob"]:
                viol.append("class %s method %s (%s): %s" % (cls, m, x["role"], x["prob"].replace("mutex is possibly not held", "caller is possibly not the owner")))
            elif x["annot"][x["end"]] == "Any":
                viol.append("class %s method %s: returns both as owner and as non-owner" % (cls, m))
        out[cls] = {"fields": list(pol["fields"]), "fieldtypes": {}, "methods": methods, "mutex": "(owner context)"}
    return out, problems, viol


# ------------------------------------------------------------------------------------------------ output
def coq_ident(s):
    return re.sub(r"[^A-Za-z0-9_]", "_", s)


def generate(repo, out_path, json_path=None):
    problems = []
    with tempfile.TemporaryDirectory(dir="/var/tmp") as tmp:
        try:
            objs = run_clang(repo, tmp)
        except Exception as e:
            objs = []
            problems.append("clang: %s" % e)
    w = Walker(objs)
    values, sites_found = {}, []
    for key, fields in SITES.items():
        got = w.found.get(key)
        if not got:
            problems.append("missing atomic site %s::%s %s.%s" % key)
            for f in fields: values[f] = None
            continue
        uniq = set(got)
        if len(uniq) != 1:
            problems.append("ambiguous site %s::%s %s.%s: %s" % (key + (sorted(uniq),)))
            for f in fields: values[f] = None
            continue
        ords = list(uniq)[0]
        if len(ords) != len(fields) or any(o.startswith("?") for o in ords):
            problems.append("unrecognised orders at %s::%s %s.%s: %s" % (key + (ords,)))
            for f in fields: values[f] = None
            continue
        for f, o in zip(fields, ords):
            values[f] = o
        sites_found.append({"site": "%s::%s %s.%s" % key, "orders": list(ords), "occurrences": len(got)})
    # fence
    fl = w.fences.get((FENCE_SITE[0], FENCE_SITE[1]), [])
    fin = [o for (o, in_if) in fl if in_if]
    if len(set(fin)) > 1 or any(o.startswith("?") for o in fin):
        problems.append("ambiguous fence in %s::%s: %s" % (FENCE_SITE[0], FENCE_SITE[1], fin)); values[FENCE_SITE[2]] = None
    elif fin:
        values[FENCE_SITE[2]] = fin[0]
        sites_found.append({"site": "%s::%s atomic_thread_fence (refusal branch)" % FENCE_SITE[:2], "orders": [fin[0]], "occurrences": len(fin)})
    else:
        values[FENCE_SITE[2]] = "Relaxed"
        sites_found.append({"site": "%s::%s atomic_thread_fence (refusal branch)" % FENCE_SITE[:2], "orders": ["ABSENT=Relaxed"], "occurrences": 0})
    for (c, f), l in w.fences.items():
        if (c, f) != FENCE_SITE[:2] and c in ANCHORED_CLASSES:
            problems.append("unrecognised fence in %s::%s" % (c, f))
    # unknown atomic operations in anchored classes
    for key in sorted(w.found, key=str):
        if key[0] in ANCHORED_CLASSES and key not in SITES and key not in IGNORED:
            problems.append("unrecognised atomic operation %s::%s %s.%s %s" % (key + (w.found[key][0],)))
    ignored = [{"site": "%s::%s %s.%s" % k, "orders": list(w.found[k][0]), "why": IGNORED[k]} for k in IGNORED if k in w.found]
    # touch after publish
    touch = {}
    for key, nm in PUBLISHERS.items():
        fns = w.funcs.get(key, [])
        rs = [touches_after_publish(f) for f in fns]
        rs = [r for r in rs if r is not None]
        if not rs:
            problems.append("publisher function %s::%s not found" % key); touch[nm] = None
        else:
            touch[nm] = any(rs)
    classes, p2, guard_problems = extract_classes(w)
    problems += p2
    oclasses, p3, owner_problems = extract_owner_classes(w)
    problems += p3
    # advisory second pass over the debug configuration (asserts compiled in): accesses that exist only inside assert()
    debug_only = []
    if os.environ.get("COCLS_SYNC_DEBUG_PASS", "1") == "1" and objs:
        try:
            with tempfile.TemporaryDirectory(dir="/var/tmp") as tmp2:
                wd = Walker(run_clang(repo, tmp2, ndebug=False))
            _, _, dv = extract_owner_classes(wd)
            debug_only = [v for v in dv if v not in owner_problems]
            for key, nm in PUBLISHERS.items():
                rs = [r for r in (touches_after_publish(f) for f in wd.funcs.get(key, [])) if r is not None]
                if rs and any(rs) and touch.get(nm) is False:
                    debug_only.append("%s::%s touches the published node after the CAS (inside assert)" % key)
        except Exception as e:
            debug_only = ["debug pass failed: %r" % (e,)]
    complete = not problems
    text = emit_coq(values, touch, classes, complete, problems, oclasses)
    os.makedirs(os.path.dirname(out_path), exist_ok=True)
    if not (os.path.exists(out_path) and open(out_path).read() == text):
        open(out_path, "w").write(text)
    info = {"complete": complete, "problems": problems, "guard_problems": guard_problems, "owner_problems": owner_problems, "debug_build_only": debug_only,
            "owner_classes": {c: {"fields": d["fields"], "methods": {m: {"role": x["role"], "post_owner": x["post"],
                                                                        "events": [" ".join(str(e) for e in nd[0]) for nd in x["nodes"]]}
                                                                    for m, x in d["methods"].items()}}
                              for c, d in oclasses.items()}, "orders": values, "sites": sites_found, "ignored_sites": ignored,
            "no_touch_after_publish": {k: (None if v is None else (not v)) for k, v in touch.items()},
            "classes": {c: {"fields": d["fields"], "methods": {m: {"nodes": len(x["nodes"]), "public": x["public"],
                                                                  "pre": x["pre"], "post": x["post"],
                                                                  "events": [" ".join(str(e) for e in nd[0]) for nd in x["nodes"]]}
                                                              for m, x in d["methods"].items()}}
                        for c, d in classes.items()}}
    if json_path:
        json.dump(info, open(json_path, "w"), indent=1)
    return info


def emit_coq(values, touch, classes, complete, problems, oclasses=None):
    L = []
    L.append("(* GENERATED by tools/extract_sync.py from the working tree of $COCLS_REPO on every check run — do not edit, not committed. *)")
    L.append("From Coq Require Import List String Bool.")
    L.append("From Cocls Require Import RADefs LocksetDefs.")
    L.append("Import ListNotations.")
    L.append("Open Scope string_scope.")
    L.append("")
    L.append("(* false when a site could not be located / recognised: %s *)" % ("; ".join(problems)[:1500].replace("*)", "* )") if problems else "no problem"))
    L.append("Definition complete : bool := %s." % ("true" if complete else "false"))
    L.append("")
    L.append("Definition orders : RADefs.orders := {|")
    rows = []
    for f in FIELD_ORDER:
        v = values.get(f)
        rows.append("  RADefs.%s := %s" % (f, v if v else "Relaxed (* NOT FOUND *)"))
    L.append(";\n".join(rows))
    L.append("|}.")
    L.append("")
    for nm in ("subcr", "mutex_subscribe", "awaiter_subscribe"):
        t = touch.get(nm)
        L.append("Definition no_touch_after_publish_%s : bool := %s." % (nm, "true" if t is False else "false"))
    L.append("")
    # skeletons
    def emit_classes(classes, prefix):
        cls_defs = []
        for cls, d in classes.items():
            fields = d["fields"]
            fid = {f: i for i, f in enumerate(fields)}
            mnames = sorted(d["methods"])
            mid = {m: i for i, m in enumerate(mnames)}
            ms = []
            for m in mnames:
                x = d["methods"][m]
                nodes = []
                for (ev, succs) in x["nodes"]:
                    if ev[0] in ("Rd", "Wr"): e = "%s %d" % (ev[0], fid[ev[1]])
                    elif ev[0] == "Call":
                        tgt = d["methods"].get(ev[1])
                        trivial = tgt is None or all(nd[0][0] in ("Skip", "End") for nd in tgt["nodes"])
                        e = "Skip" if trivial else "Call %d" % mid[ev[1]]
                    else: e = "Drop" if ev[0] == "Release" else ev[0]
                    nodes.append("(%s, [%s])" % (e, "; ".join(str(s) for s in succs)))
                ann = "[%s]" % "; ".join(x["annot"])
                ms.append("    {| m_name := \"%s\"; m_public := %s; m_pre := %s; m_post := %s;\n       m_nodes := [%s];\n       m_annot := %s |}"
                          % (m, "true" if x["public"] else "false", "true" if x["pre"] else "false",
                             "true" if x["post"] else "false", ";\n                   ".join(nodes), ann))
            ident = prefix + coq_ident(cls)
            L.append("(* class %s: %s; fields %s *)" % (cls, d["mutex"], ", ".join("%d=%s" % (i, f) for f, i in fid.items())))
            L.append("Definition %s : LocksetDefs.class_sk := {| c_name := \"%s\"; c_methods := [\n%s ] |}." % (ident, cls, ";\n".join(ms)))
            L.append("")
            cls_defs.append(ident)
        return cls_defs
    cls_defs = emit_classes(classes, "sk_")
    own_defs = emit_classes(oclasses or {}, "own_")
    L.append("(* owner discipline of the lock-free classes: Held = owner context of the release/acquire protocol *)")
    L.append("Definition owner_skeletons : list LocksetDefs.class_sk := [%s]." % "; ".join(own_defs))
    L.append("Definition skeletons : list LocksetDefs.class_sk := [%s]." % "; ".join(cls_defs))
    return "\n".join(L) + "\n"


def main():
    import argparse
    ap = argparse.ArgumentParser()
    ap.add_argument("--repo", default=os.environ.get("COCLS_REPO", "/repo"))
    ap.add_argument("--out", default=os.path.join(VERIF, "coq", "gen", "SyncGen.v"))
    ap.add_argument("--json")
    a = ap.parse_args()
    info = generate(a.repo, a.out, a.json)
    for s in info["sites"]:
        print("site %-75s %s" % (s["site"], ",".join(s["orders"])))
    for p in info["problems"]:
        print("PROBLEM:", p)
    for p in info["guard_problems"]:
        print("UNGUARDED:", p)
    for p in info["owner_problems"]:
        print("NOT-OWNER:", p)
    for p in info["debug_build_only"]:
        print("DEBUG-BUILD-ONLY (advisory):", p)
    sys.exit(0 if info["complete"] else 3)


if __name__ == "__main__":
    main()
