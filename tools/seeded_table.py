#!/usr/bin/env python3
"""seeded_table.py — writes /verif/VALIDATION.md from seeded/*/meta.json and seeded/RESULTS.json:
which registered check catches which independently written breaking change."""
import json, os
V = os.path.dirname(os.path.dirname(os.path.abspath(__file__)))
S = os.path.join(V, "seeded")

def main():
    res = json.load(open(os.path.join(S, "RESULTS.json"))) if os.path.exists(os.path.join(S, "RESULTS.json")) else {}
    rows = []
    for sid in sorted(d for d in os.listdir(S) if os.path.isfile(os.path.join(S, d, "meta.json"))):
        m = json.load(open(os.path.join(S, sid, "meta.json")))
        r = res.get(sid, {})
        verdicts = []
        for k, v in sorted(r.items()):
            if isinstance(v, dict) and "verdict" in v:
                verdicts.append("%s → %s" % (k, v["verdict"]))
        if isinstance(r, dict) and r.get("error"):
            verdicts.append("ERROR: " + r["error"])
        rows.append((sid, m.get("property", "harmless" if m.get("kind") == "harmless" else "?"), m.get("title", "").replace("|", "/")[:160],
                     (m.get("needs", "") or "").replace("|", "/").replace("\n", " ")[:220], "; ".join(verdicts) or "not run yet"))
    out = ["# Validation against independently written breaking changes", "",
           "Each change below was written by a fresh sub-agent that saw only the property text and a scratch worktree of the",
           "library (nothing from /verif). It compiles, passes the 15 existing tests, and comes with a demonstration that fails",
           "with the change and passes without it (re-confirmed by `tools/confirm_seed.sh`, see `confirmed_by_lead` in each",
           "meta.json). `tools/seeded.py` applies each change to a scratch worktree of /repo HEAD and runs the registered check(s).",
           "Verdicts: *caught-concrete* = VIOLATION with a replayable failing input on the real code; *caught-obligation* =",
           "VIOLATION … no-failing-input-found (a theorem / correspondence no longer checks); *MISSED* = exit 0.",
           "Rows with property `harmless` are behaviour-preserving refactorings written the same way (they must pass the tests);",
           "for them the wanted verdict is *silent-ok* for every check anchored in the changed headers.", "",
           "| id | property | change | needs | verdict (check:tier) |", "|---|---|---|---|---|"]
    for r in rows:
        out.append("| %s | %s | %s | %s | %s |" % r)
    br = [r for r in rows if r[1] != "harmless"]
    hr = [r for r in rows if r[1] == "harmless"]
    own = lambda r: [v for v in r[4].split("; ") if v.startswith(r[1] + ":")]
    caught = sum(1 for r in br if own(r) and all("caught" in v for v in own(r)))
    concrete = sum(1 for r in br if own(r) and all("caught-concrete" in v for v in own(r)))
    silent = sum(1 for r in hr if "alarm" not in r[4].lower() and r[4] != "not run yet")
    out += ["", "%d breaking changes: %d caught by the check of the property they were written against, %d of them with a concrete failing input." % (len(br), caught, concrete),
            "%d behaviour-preserving changes (ids H*): %d leave every check anchored in the changed headers silent; the others raise only `no-failing-input-found` alarms (named obligation / harness build), listed above." % (len(hr), silent), ""]
    open(os.path.join(V, "VALIDATION.md"), "w").write("\n".join(out))
    print("VALIDATION.md: %d rows" % len(rows))

if __name__ == "__main__":
    main()
