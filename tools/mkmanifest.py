#!/usr/bin/env python3
"""mkmanifest.py — assembles /verif/MANIFEST.json from the per-property fragments manifest/Cnn.json.
A property is claimed only if its fragment, its Properties_Cnn.v and its tools/props/Cnn.py exist; everything else is
listed under not_applicable with the reason given in manifest/not_claimed.json (or a generic one)."""
import glob, json, os, subprocess
V = os.path.dirname(os.path.dirname(os.path.abspath(__file__)))

def main():
    props = [json.loads(l) for l in open(os.path.join(V, "properties.jsonl"))]
    reasons = {}
    p = os.path.join(V, "manifest", "not_claimed.json")
    if os.path.exists(p):
        reasons = json.load(open(p))
    checks = []
    for pr in props:
        pid = pr["id"]
        f = os.path.join(V, "manifest", pid + ".json")
        if pid in reasons or not (os.path.exists(f) and os.path.exists(os.path.join(V, "coq", "Properties_%s.v" % pid))
                                   and os.path.exists(os.path.join(V, "tools", "props", pid + ".py"))):
            continue
        c = json.load(open(f))
        c["property_id"] = pid
        c["quick_cmd"] = "./check %s --tier quick" % pid
        c["thorough_cmd"] = "./check %s --tier thorough" % pid
        c["evidence_file"] = "evidence/%s.json" % pid
        c["replay_cmd_template"] = "./check %s --replay {path}" % pid
        c["level_claimed"].setdefault("design_ref", "DESIGN.md 2/%s" % pid)
        checks.append(c)
    claimed = [c["property_id"] for c in checks]
    hooks_commits = subprocess.run(["git", "-C", "/repo", "log", "--format=%h", "--grep=^verif hooks"], stdout=subprocess.PIPE).stdout.decode().split()
    by_engine = {}
    for c in checks:
        for e in c.get("engine", "").replace(",", "+").split("+"):
            e = e.strip()
            if e:
                by_engine.setdefault(e, []).append(c["property_id"])
    kinds = {"coq": ("coq/", "Coq 8.16 executable models, invariants and property theorems (Properties_Cnn.v)"),
             "seq": ("harness/", "sequential differential harnesses against the real headers (ASan/UBSan, allocation counters)"),
             "ctl": ("harness/", "controlled-schedule harnesses: real std::threads, one runnable at a time, yielding at the guarded COCLS_VERIF hook points"),
             "vm": ("harness/", "scripted-coroutine harnesses interpreting the same scripts as the Gallina models"),
             "stress": ("harness/", "real uncontrolled threads with a property oracle (supporting evidence)"),
             "tsan": ("harness/", "ThreadSanitizer scenarios (supporting evidence / failing-input search for C03)"),
             "translator": ("tools/extract_sync.py", "clang-AST translator regenerating coq/gen/SyncGen.v (memory orders, lock skeletons) on every run")}
    engines = [{"name": "modelrun", "path": "ocaml/", "serves_properties": claimed,
                "kind_free_text": "OCaml extraction of the Coq models and decidable property oracles (bin/modelrun)"}]
    for e, ps in sorted(by_engine.items()):
        path, txt = kinds.get(e, ("harness/", e))
        engines.append({"name": e, "path": path, "serves_properties": sorted(set(ps)), "kind_free_text": txt})
    na = [{"property_id": pr["id"], "reason": reasons.get(pr["id"], "not claimed: the component (model, proofs, correspondence harness) is not finished; no check is registered for it")}
          for pr in props if pr["id"] not in claimed]
    m = {"version": 1, "setup_cmd": "cd /verif && ./setup.sh",
         "hooks": {"guard": "COCLS_VERIF",
                   "enable": "harnesses are compiled with -DCOCLS_VERIF -I/repo/src (header-only library); see tools/vlib.py build_harness",
                   "baseline_off_cmd": "cmake --build /repo/_build && ctest --test-dir /repo/_build -j8 --timeout 900",
                   "source_commits": hooks_commits, "add_only": True},
         "engines": engines, "checks": checks, "not_applicable": na,
         "notes": "every check: ./check Cnn --tier quick|thorough (gate, translator where present, Coq build + Print Assumptions, extraction, harness build from /repo's working tree, correspondence, oracle search, evidence). Known findings: known_findings.json. Seeded breaking changes: seeded/."}
    json.dump(m, open(os.path.join(V, "MANIFEST.json"), "w"), indent=1)
    print("claimed:", " ".join(claimed)); print("not claimed:", " ".join(x["property_id"] for x in na))

if __name__ == "__main__":
    main()
