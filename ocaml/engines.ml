(* engines.ml — table from engine name to extracted model runner and property oracle *)
open Model
type engine = { run : z list list -> z list list; oracle : z list list -> z list list -> bool }
let table : (string * engine) list = [
  "sp0", { run = sp_run false; oracle = sp_oracle };
  "sp1", { run = sp_run true;  oracle = sp_oracle };
]
