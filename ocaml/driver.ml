(* driver.ml — line-oriented I/O around the extracted models (parsing and printing only).
   usage: modelrun run <cases>            prints the model's observations
          modelrun oracle <cases> <obs>   evaluates the extracted property oracle on observed traces
   case file:   CASE <engine> <name> / one op per line (integers) / END
   obs file:    CASE <name> / one observation per line (integers) / END            *)
open Model

let rec pos_of_int n = if n = 1 then XH else if n land 1 = 0 then XO (pos_of_int (n lsr 1)) else XI (pos_of_int (n lsr 1))
let z_of_int n = if n = 0 then Z0 else if n > 0 then Zpos (pos_of_int n) else Zneg (pos_of_int (-n))
let rec int_of_pos = function XH -> 1 | XO p -> 2 * int_of_pos p | XI p -> 2 * int_of_pos p + 1
let int_of_z = function Z0 -> 0 | Zpos p -> int_of_pos p | Zneg p -> - (int_of_pos p)

let split_ws s = List.filter (fun x -> x <> "") (String.split_on_char ' ' (String.trim s))
let parse_line s = List.map (fun t -> z_of_int (int_of_string t)) (split_ws s)
let print_line oc l = output_string oc (String.concat " " (List.map (fun z -> string_of_int (int_of_z z)) l)); output_char oc '\n'

open Engines
let engines : (string * engine) list = Engines.table

let read_cases path =
  let ic = open_in path in
  let cases = ref [] in
  let cur = ref None in
  (try while true do
    let l = input_line ic in
    let l = String.trim l in
    if l = "" then () else
    match !cur with
    | None ->
      (match split_ws l with
       | "CASE" :: eng :: name :: _ -> cur := Some (eng, name, [])
       | "CASE" :: name :: [] -> cur := Some ("", name, [])
       | _ -> failwith ("bad line outside case: " ^ l))
    | Some (eng, name, ops) ->
      if l = "END" then (cases := (eng, name, List.rev ops) :: !cases; cur := None)
      else if (String.length l >= 5 && String.sub l 0 5 = "CRASH") || l = "HANG" || l = "MISSING" then cur := Some (eng, name, [z_of_int (-999)] :: ops)
      else (* any other line that is not a list of integers (e.g. SKIPPED, sanitizer chatter) is an abnormal-end marker too *)
        (match (try Some (parse_line l) with _ -> None) with
         | Some z -> cur := Some (eng, name, z :: ops)
         | None -> cur := Some (eng, name, [z_of_int (-999)] :: ops))
  done with End_of_file -> ());
  close_in ic;
  List.rev !cases

let () =
  match Array.to_list Sys.argv with
  | _ :: "run" :: path :: _ ->
    List.iter (fun (eng, name, ops) ->
      let e = try List.assoc eng engines with Not_found -> failwith ("unknown engine " ^ eng) in
      Printf.printf "CASE %s\n" name;
      List.iter (print_line stdout) (e.run ops);
      print_string "END\n") (read_cases path)
  | _ :: "oracle" :: cpath :: opath :: _ ->
    let cases = read_cases cpath in
    let obs = read_cases opath in
    let tbl = Hashtbl.create 1024 in
    List.iter (fun (_, name, o) -> Hashtbl.replace tbl name o) obs;
    List.iter (fun (eng, name, ops) ->
      let e = try List.assoc eng engines with Not_found -> failwith ("unknown engine " ^ eng) in
      match Hashtbl.find_opt tbl name with
      | None -> Printf.printf "%s MISSING\n" name
      | Some o -> Printf.printf "%s %s\n" name (if e.oracle ops o then "OK" else "FAIL")) cases
  | _ -> prerr_endline "usage: modelrun run <cases> | oracle <cases> <obs>"; exit 2
