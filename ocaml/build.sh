#!/bin/sh
# builds /verif/bin/modelrun from the extracted model (coq/extract/model.ml) and the driver; the binary is replaced
# atomically (rename), so a check that is executing the previous binary at that moment is not disturbed
set -e
cd "$(dirname "$0")"
mkdir -p ../build/ocaml ../bin
cp ../coq/extract/model.ml ../coq/extract/model.mli engines.ml driver.ml ../build/ocaml/
cd ../build/ocaml
T=../../bin/modelrun.tmp.$$
ocamlfind ocamlopt -w -a -O2 model.mli model.ml engines.ml driver.ml -o $T 2>/dev/null || \
ocamlfind ocamlopt -w -a model.mli model.ml engines.ml driver.ml -o $T
mv -f $T ../../bin/modelrun
