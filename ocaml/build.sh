#!/bin/sh
# builds /verif/bin/modelrun from the extracted model (coq/extract/model.ml) and the driver
set -e
cd "$(dirname "$0")"
mkdir -p ../build/ocaml ../bin
cp ../coq/extract/model.ml ../coq/extract/model.mli engines.ml driver.ml ../build/ocaml/
cd ../build/ocaml
ocamlfind ocamlopt -w -a -O2 model.mli model.ml engines.ml driver.ml -o ../../bin/modelrun 2>/dev/null || \
ocamlfind ocamlopt -w -a model.mli model.ml engines.ml driver.ml -o ../../bin/modelrun
