import sys
name, f = sys.argv[1], sys.argv[2]
s = open(f).read()
def rep(a, b):
    global s
    assert s.count(a) == 1, (a, s.count(a))
    s = s.replace(a, b)
if name == "oldread":      # F-C07: decide from aw->_next after the publishing CAS
    rep("if (prev == nullptr) [[likely]] {", "if (aw->_next == nullptr) [[likely]] {")
elif name == "lifo":       # no reversal: queue taken as is
    rep("""            auto x = req;
            req = req->_next;
            x->_next = _queue;
            _queue= x;""", """            if (!_queue) _queue = req;
            auto x = req;
            req = req->_next;
            if (req == stop || !req) x->_next = nullptr;""")
elif name == "nullstore":  # unlock stores null unconditionally when queue empty
    rep("if (_requests.compare_exchange_strong(x, nullptr, std::memory_order_release)) [[likely]] {",
        "if (_requests.exchange(nullptr, std::memory_order_release), true) [[likely]] {")
elif name == "wrongexp":   # unlock CAS with wrong expected value
    rep("auto x = doorman();\n", "auto x = _requests.load();\n")
elif name == "trypush":    # try_lock pushes a request when busy
    rep("return ready()?ownership(this):ownership(nullptr);",
        "if (ready()) return ownership(this); static awaiter dummy; subscribe(&dummy); return ownership(nullptr);")
elif name == "nopop":      # hand-over does not pop the head
    rep("_queue = _queue->_next;\n", "if (_queue->_next == nullptr) _queue = _queue->_next;\n")
elif name == "stopdoor":   # subscribe's build_queue uses the doorman as stop marker
    rep("build_queue(aw);", "build_queue(doorman());")
elif name == "noclear":    # harmless?: do not clear first->_next
    rep("first->_next = nullptr;", "")
elif name == "rewrite":    # behaviour preserving rewrite
    rep("awaiter *first = _queue;", "awaiter *first = _queue; awaiter *keep = first->_next;")
    rep("_queue = _queue->_next;\n", "_queue = keep;\n")
    rep("if (prev == nullptr) [[likely]] {", "if (!prev) {")
elif name == "readyweak":  # ready() uses exchange: steals a locked mutex
    rep("bool ok = _requests.compare_exchange_strong(n, doorman());", "n = _requests.load(); bool ok = n == nullptr || (n == doorman() && _queue == nullptr && false); if (n == nullptr) _requests.store(doorman());")
elif name == "skipq":     # unlock tries the fast path even when the private queue is not empty
    rep("if (!_queue) [[likely]] {", "if (!_queue || _queue->_next) [[likely]] {")
    rep("build_queue(doorman());\n", "if (!_queue) build_queue(doorman());\n")
elif name == "bqnull":     # build_queue from unlock leaves null instead of the doorman in _requests
    rep("awaiter *req = _requests.exchange(doorman(), std::memory_order_acquire);",
        "awaiter *req = _requests.exchange(stop == doorman() ? nullptr : doorman(), std::memory_order_acquire);")
else:
    sys.exit("unknown")
open(f, "w").write(s)
