#!/usr/bin/env python3
# usage: mutate.py <name>  -> creates /var/tmp/ag-signal/mut with the mutation applied
import sys, shutil, os
name=sys.argv[1]
src='/var/tmp/ag-signal/repo'; dst='/var/tmp/ag-signal/mut'
shutil.rmtree(dst,ignore_errors=True); shutil.copytree(src,dst)
def rep(f,a,b,cnt=1):
    p=os.path.join(dst,'src/cocls',f); s=open(p).read()
    assert s.count(a)>=1,(name,a)
    s=s.replace(a,b,cnt); open(p,'w').write(s)
M={
 'first_only': lambda: rep('awaiter.h','''        while (chain) {
            COCLS_VERIF_POINT("walk");''','''        if (chain) {
            COCLS_VERIF_POINT("walk");'''),
 'no_clear_before_walk': lambda: rep('awaiter.h','return resume_chain_lk(chain.exchange(nullptr, std::memory_order_acquire));',
     'auto *c_ = chain.load(std::memory_order_acquire); auto r_ = resume_chain_lk(c_); chain.store(nullptr); return r_;'),
 'cb_not_resubscribed': lambda: rep('signal.h','''                    if (_fn(this->await_resume())) {
                        this->subscribe(st->_chain);''','''                    if (_fn(this->await_resume())) {
                        '''),
 'dtor_no_notify': lambda: rep('signal.h','''            _cur_val = nullptr;
            notify_awaiters();''','''            _cur_val = nullptr;'''),
 'owned_destroyed_early': lambda: rep('signal.h','''            _state->_value_storage.emplace(std::forward<Args>(args)...);
            _state->_cur_val = &(*_state->_value_storage);
            return _state->notify_awaiters();''','''            _state->_value_storage.emplace(std::forward<Args>(args)...);
            _state->_cur_val = &(*_state->_value_storage);
            auto sp_ = _state->notify_awaiters();
            _state->_value_storage.reset();
            return sp_;'''),
 'curval_not_reset': lambda: rep('signal.h','''            _cur_val = nullptr;
            notify_awaiters();''','''            notify_awaiters();'''),
 'dead_await_suspends': lambda: rep('signal.h','''            }  else {
                return false;''','''            }  else {
                return true;'''),
 'lvalue_copies': lambda: rep('signal.h','''            _state->_cur_val = &val;
            return _state->notify_awaiters();''','''            _state->_value_storage.emplace(val);
            _state->_cur_val = &(*_state->_value_storage);
            return _state->notify_awaiters();'''),
 'cb_false_not_deleted': lambda: rep('signal.h','''                        this->subscribe(st->_chain);
                    } else {
                        delete this;
                    }

                } else {''','''                        this->subscribe(st->_chain);
                    } else {
                        delete this;
                    }

                } else {''') or rep('signal.h','''                    if (_fn(this->await_resume())) {
                        this->subscribe(st->_chain);
                    } else {
                        delete this;
                    }''','''                    if (_fn(this->await_resume())) {
                        this->subscribe(st->_chain);
                    } else {
                    }'''),
 'dead_connect_leaks': lambda: rep('signal.h','''                } else {
                    resume();;''','''                } else {
                    ;'''),
 'rvalue_keeps_old_pointer': lambda: rep('signal.h','''            _state->_value_storage.emplace(std::move(val));
            _state->_cur_val = &(*_state->_value_storage);''','''            _state->_value_storage.emplace(std::move(val));'''),
 'resume_returns_stale_after_drop': lambda: rep('signal.h','''            auto s = _wk_state.lock();
            if (s) {
                auto v = s->_cur_val;''','''            auto s = _wk_state.lock();
            if (true) {
                auto v = _last_;''') ,
 'walk_skips_after_callback': lambda: rep('awaiter.h','''            ret << y->resume();''','''            bool cb_ = y->_resume_fn != nullptr; ret << y->resume(); if (cb_ && chain) chain = chain->_next;'''),
 'cb_delete_when_third': lambda: rep('signal.h','''                    if (_fn(this->await_resume())) {
                        this->subscribe(st->_chain);''','''                    if (_fn(this->await_resume())) {
                        if (++_n_ == 3) return;
                        this->subscribe(st->_chain);''') or rep('signal.h','''            Fn _fn;
        };

        auto *x''','''            Fn _fn;
            int _n_ = 0;
        };

        auto *x'''),
 'sp_await_drops_first': lambda: rep('suspend_point.h','''            for (auto x: *this) {
                me_included |= x == me_addr;
                coro_queue::instance->push(std::coroutine_handle<>::from_address(x));
            }''','''            bool first_ = true;
            for (auto x: *this) {
                me_included |= x == me_addr;
                if (first_ && size() >= 3) { first_ = false; continue; }
                first_ = false;
                coro_queue::instance->push(std::coroutine_handle<>::from_address(x));
            }'''),
 'undo_assert_fix': lambda: rep('awaiter.h','''        COCLS_VERIF_POINT("apub");
''','''        COCLS_VERIF_POINT("apub");
        assert (_next != this);
'''),
 'cb_resub_before_call': lambda: rep('signal.h','''                    if (_fn(this->await_resume())) {
                        this->subscribe(st->_chain);''','''                    auto &v_ = this->await_resume(); this->subscribe(st->_chain); if (_fn(v_)) {
                        '''),
 'harmless_walk_rewrite': lambda: rep('awaiter.h','''            auto y = chain;
            chain = chain->_next;
            y->_next = nullptr;''','''            awaiter *y = chain;
            awaiter *nx_ = y->_next;
            y->_next = nullptr;
            chain = nx_;'''),
}
M[name]()
print("mutated",name)
