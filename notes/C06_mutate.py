#!/usr/bin/env python3
"""C06 mutation testing: apply hand-made mutations of suspend_point.h / coro_queue.h to a scratch copy of the library
($COCLS_REPO, which must contain fixes/C06-await-own-handle-last.patch) and run `./check C06 --tier quick` on each.

usage: COCLS_REPO=/var/tmp/ag-sp/repo python3 notes/C06_mutate.py [name ...]
Breaking mutations must print a VIOLATION line, behaviour-preserving rewrites (names starting with H) must stay silent."""
import os, shutil, subprocess, sys, tempfile

V = os.path.dirname(os.path.dirname(os.path.abspath(__file__)))
REPO = os.environ.get("COCLS_REPO", "/repo")
SP = "src/cocls/suspend_point.h"
CQ = "src/cocls/coro_queue.h"

M = [
 # --- breaking ---
 ("M01-value-moved-out", SP, "    operator X() {\n        return value;", "    operator X() {\n        return std::move(value);"),
 ("M02-own-handle-skipped", SP, "                me_included |= x == me_addr;\n", "                if (x == me_addr) { me_included = true; continue; }\n"),
 ("M03-own-handle-last-unfixed", SP, "bool me_included = out.address() == me_addr;", "bool me_included = false;"),
 ("M04-own-handle-always-pushed", SP, "            if (!me_included) {\n                coro_queue::instance->push(h);\n            }", "            coro_queue::instance->push(h);"),
 ("M05-grow-copies-one-less", SP, "std::copy(_ext._handles, _ext._handles+count, nh);", "std::copy(_ext._handles, _ext._handles+count-1, nh);"),
 ("M06-pop-to-zero-drops-flag", SP, "            _count_flag-=2;\n", "            _count_flag-=2;\n            if (_count_flag == 1) _count_flag = 0;\n"),
 ("M07-move-ctor-heap-source-kept", SP, "            _ext = other._ext;\n        } else {\n            _local = other._local;\n        }\n        other._count_flag = 0;",
  "            _ext = other._ext;\n            return;\n        } else {\n            _local = other._local;\n        }\n        other._count_flag = 0;"),
 ("M08-merge-heap-source-not-reset", SP, "            delete [] other._ext._handles;\n        } else {", "            delete [] other._ext._handles;\n            return *this;\n        } else {"),
 ("M09-create-takes-front", SP, "                ss << instance->_queue.back();\n                instance->_queue.pop_back();\n            }\n            return suspend_point<ret_v>",
  "                ss << instance->_queue.front();\n                instance->_queue.pop_front();\n            }\n            return suspend_point<ret_v>"),
 ("M10-create-leaves-one-queued", SP, "            while (instance->_queue.size() > sz) {\n                COCLS_VERIF_LOG(\"q_unq\", reinterpret_cast<long>(instance->_queue.back().address()), 0);\n                ss << instance->_queue.back();\n                instance->_queue.pop_back();\n            }\n            return ss;",
  "            while (instance->_queue.size() > sz + (sz ? 1 : 0)) {\n                ss << instance->_queue.back();\n                instance->_queue.pop_back();\n            }\n            return ss;"),
 ("M12-await-resume-after-clear-keeps-flag", SP, "            if (!me_included) {\n                coro_queue::instance->push(h);\n            }\n            clear_internal();",
  "            if (!me_included) {\n                coro_queue::instance->push(h);\n            }\n            _count_flag &= 1;"),
 ("M13-suspend-now-empty-early-return", SP, "        if (!empty()) {\n            if (coro_queue::is_active()) {", "        if (empty()) return;\n        {\n            if (coro_queue::is_active()) {"),
 ("M14-inline-threshold", SP, "            if (count < inline_count)  [[likely]] {", "            if (count <= inline_count)  [[likely]] {"),
 ("M15-await-ready-heap", SP, "    constexpr bool await_ready() const noexcept {\n        return empty();", "    constexpr bool await_ready() const noexcept {\n        return _count_flag < 2;"),
 # --- behaviour preserving ---
 ("H01-value-via-local", SP, "    operator X() {\n        return value;", "    operator X() {\n        X copy(value);\n        return copy;"),
 ("H02-scan-with-if", SP, "                me_included |= x == me_addr;\n", "                if (x == me_addr) me_included = true;\n"),
 ("H03-active-hoisted", SP, "        if (!empty()) {\n            if (coro_queue::is_active()) {", "        if (!empty()) {\n            const bool active = coro_queue::is_active();\n            if (active) {"),
 ("H04-pop-early-return", SP, "        std::size_t idx = (_count_flag >> 1);\n        if (idx) [[likely]] {", "        const std::size_t idx = size();\n        if (idx != 0) [[likely]] {"),
 ("H05-merge-via-begin", SP, "            for (std::size_t i = 0; i < count; i++) {\n                add(other._local._handles[i]);\n            }", "            for (const Ptr *p = other.begin(); p != other.end(); ++p) {\n                add(*p);\n            }"),
]


def main():
    names = sys.argv[1:]
    res = []
    for name, f, old, new in M:
        if names and not any(name.startswith(x) for x in names):
            continue
        tmp = tempfile.mkdtemp(prefix="c06mut.", dir="/var/tmp")
        try:
            repo = os.path.join(tmp, "repo")
            shutil.copytree(REPO, repo, ignore=shutil.ignore_patterns("_build", ".git"))
            p = os.path.join(repo, f)
            s = open(p).read()
            if s.count(old) != 1:
                print("%s: pattern occurs %d times, skipped" % (name, s.count(old))); res.append((name, "NOPATTERN")); continue
            open(p, "w").write(s.replace(old, new))
            r = subprocess.run([os.path.join(V, "check"), "C06", "--tier", "quick"], env=dict(os.environ, COCLS_REPO=repo),
                               stdout=subprocess.PIPE, stderr=subprocess.STDOUT, cwd=V)
            out = r.stdout.decode()
            vio = [l for l in out.splitlines() if l.startswith("VIOLATION")]
            kind = "silent" if not vio else ("VIOLATION(concrete)" if any("no-failing-input" not in l for l in vio) else "VIOLATION(no-failing-input)")
            if "harness-build" in out: kind += " BUILD-ERROR"
            ok = (kind == "silent") == name.startswith("H")
            print("%-45s %-28s %s" % (name, kind, "ok" if ok else "UNEXPECTED"))
            sys.stdout.flush()
            res.append((name, kind))
        finally:
            shutil.rmtree(tmp, ignore_errors=True)
    return 0


if __name__ == "__main__":
    sys.exit(main())
