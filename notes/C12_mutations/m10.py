s=s.replace("""        std::stop_callback stpc(token,[&]{
""","""        std::stop_callback stpc(token,[&]{
            std::lock_guard _(_mx);
""")
