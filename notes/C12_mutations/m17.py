s=s.replace("""                       if (coro_queue::can_block()) {
                           _cond.wait_until(lk, x);""","""                       if (coro_queue::can_block()) {
                           _cond.wait_until(lk, x + std::chrono::seconds(3));""")
