#!/bin/bash
# usage: mutate.sh <name> <python-snippet-file>   (snippet edits string s = scheduler.h text)
set -e
name=$1; snip=$2
rm -rf /var/tmp/ag-timer/mut; cp -r /var/tmp/ag-timer/repo /var/tmp/ag-timer/mut
python3 - "$snip" <<'PY'
import sys
p='/var/tmp/ag-timer/mut/src/cocls/scheduler.h'
s=open(p).read()
s0=s
exec(open(sys.argv[1]).read())
assert s!=s0, "mutation did not apply"
open(p,'w').write(s)
PY
cd /var/tmp/ag-timer/verif
echo "=== mutation $name"
diff <(cat /var/tmp/ag-timer/repo/src/cocls/scheduler.h) /var/tmp/ag-timer/mut/src/cocls/scheduler.h || true
COCLS_REPO=/var/tmp/ag-timer/mut ./check C12 --tier quick 2>&1 | tail -4
