s=s.replace("return a._tp > b._tp;","return a._tp >= b._tp;")
