s=s.replace("(_scheduled[0]._tp <= now || !_scheduled[0]._p)","(_scheduled[0]._tp < now || !_scheduled[0]._p)")
