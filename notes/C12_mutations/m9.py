s=s.replace("""            pop_item();
            if (p) return p;
        }
        SchVector""","""            pop_item();
            return p;
        }
        SchVector""")
