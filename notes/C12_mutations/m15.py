s=s.replace("bool ntf = _scheduled.empty() || _scheduled[0]._tp > tp;","bool ntf = _scheduled.empty();")
