s=s.replace("while (!_scheduled.empty() && _scheduled[0]._ident == id) {","while (_scheduled[0]._ident == id) {")
