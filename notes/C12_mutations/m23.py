s=s.replace("""            auto p = std::move(_scheduled[0]._p);
            pop_item();""","""            auto p = std::move(_scheduled[0]._p);
            _scheduled.erase(_scheduled.begin());""")
