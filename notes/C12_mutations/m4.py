s=s.replace("""            return {p(e), true};""","""            return true;""")
