# pool flavour only: back to the plain wait (stop request in the window is lost)
old="""                       if (!pool->any_enqueued() && coro_queue::can_block()) {
                           COCLS_VERIF_POINT("sched_wait");
                           _cond.wait_until(lk, state, x, [&]{return !_scheduled.empty() && _scheduled[0]._tp < x;});"""
assert old in s
s=s.replace(old,"""                       if (!pool->any_enqueued() && coro_queue::can_block()) {
                           COCLS_VERIF_POINT("sched_wait");
                           _cond.wait_until(lk, x);""")
