# wait predicate compares with <= reversed: wakes only for LATER entries
s=s.replace("_cond.wait_until(lk, state, x, [&]{return !_scheduled.empty() && _scheduled[0]._tp < x;});","_cond.wait_until(lk, state, x, [&]{return !_scheduled.empty() && _scheduled[0]._tp > x;});")
