s=s.replace("""        if (iter == _scheduled.end()) return {};
        return std::move(iter->_p);""","""        if (iter == _scheduled.end()) return {};
        promise r(std::move(iter->_p));
        _scheduled.erase(iter);
        return r;""")
