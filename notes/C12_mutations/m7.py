s=s.replace("return x._ident == id && x._p;","return x._ident == id;")
