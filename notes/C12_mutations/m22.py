s=s.replace("schedule(id, std::move(p), tp);\n        };","schedule(nullptr, std::move(p), tp);\n        };")
