# behaviour-preserving rewrite: get_expired_lk restructured, redundant empty test in remove dropped
s=s.replace("""        while (!_scheduled.empty() && (_scheduled[0]._tp <= now || !_scheduled[0]._p)) {
            promise p ( std::move(_scheduled[0]._p));
            pop_item();
            if (p) {
                return p;
            }
        }
        if (_scheduled.empty()) return std::chrono::system_clock::time_point::max();
        else return _scheduled[0]._tp;""","""        for (;;) {
            if (_scheduled.empty()) return std::chrono::system_clock::time_point::max();
            SchItem &top = _scheduled.front();
            bool live = static_cast<bool>(top._p);
            if (live && now < top._tp) return top._tp;
            promise p(std::move(top._p));
            pop_item();
            if (live) return p;
        }""")
s=s.replace("""        if (_scheduled.empty()) return {};
        while (!_scheduled.empty()""","""        while (!_scheduled.empty()""")
