s=s.replace("""          bool ntf = _scheduled.empty() || _scheduled[0]._tp > tp;
          _scheduled.push_back({tp, std::move(p), id});
          std::push_heap(_scheduled.begin(), _scheduled.end(), compare_item);""","""          _scheduled.push_back({tp, std::move(p), id});
          std::push_heap(_scheduled.begin(), _scheduled.end(), compare_item);
          bool ntf = _scheduled.empty() || _scheduled[0]._tp > tp;""")
