# cancel hits the top entry regardless of promise state: second pop of emptied entries skipped (returns empty promise of an emptied top w/o looking further)
s=s.replace("""        if (iter == _scheduled.end()) return {};
        return std::move(iter->_p);""","""        if (iter == _scheduled.end()) return {};
        if (iter + 1 != _scheduled.end() && (iter+1)->_ident == id && (iter+1)->_p) ++iter;
        return std::move(iter->_p);""")
