s=s.replace("""          if (ntf) {
              _cond.notify_all();
          }""","""          (void)ntf;""")
