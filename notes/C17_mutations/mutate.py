#!/usr/bin/env python3
"""usage: mutate.py <name> <dst-repo>  — copy of $COCLS_REPO with one mutation applied"""
import sys, shutil, os
SRC = "/var/tmp/ag-shared/repo"
def rep(path, old, new, count=1):
    s = open(path).read()
    assert s.count(old) >= 1, (path, old)
    s = s.replace(old, new, count)
    open(path, "w").write(s)
M = {}
def mut(f):
    M[f.__name__] = f; return f
SF = "src/cocls/shared_future.h"; AW = "src/cocls/awaiter.h"
@mut
def m1_set_after_subscribe(d):
    rep(d+SF, '''       COCLS_VERIF_POINT("sf_set");
       _ptr = ptr;
       if (!(ptr->operator co_await()).subscribe(&ptr->resolve_tracer)) {
           COCLS_VERIF_POINT("sf_dec");
           _ptr = nullptr;
      }''', '''       if ((ptr->operator co_await()).subscribe(&ptr->resolve_tracer)) {
           COCLS_VERIF_POINT("sf_set");
           _ptr = ptr;
      }''')
@mut
def m2_walk_reads_next_after_resume(d):
    rep(d+AW, '''            chain = chain->_next;
            y->_next = nullptr;
            ret << y->resume();''', '''            ret << y->resume();
            chain = y->_next;
            y->_next = nullptr;''')
@mut
def m3_no_clear_when_refused(d):
    rep(d+SF, '''           COCLS_VERIF_POINT("sf_dec");
           _ptr = nullptr;
      }''', '''           COCLS_VERIF_POINT("sf_dec");
      }''')
@mut
def m4_copy_not_sharing(d):
    rep(d+SF, '''    shared_future() = default;''', '''    shared_future() = default;
    shared_future(shared_future &&) = default;
    shared_future &operator=(shared_future &&) = default;
    shared_future &operator=(const shared_future &) = default;
    shared_future(const shared_future &o):_ptr(o._ptr?std::make_shared<future_internal>():nullptr) {}''')
@mut
def m5_old_inverted_init(d):
    rep(d+SF, "if (!_ptr) _ptr = std::make_shared<future_internal>();", "if (_ptr) _ptr = std::make_shared<future_internal>();")
@mut
def m6_clear_on_wrong_condition(d):
    rep(d+SF, "if (!(ptr->operator co_await()).subscribe(&ptr->resolve_tracer)) {", "if ((ptr->operator co_await()).subscribe(&ptr->resolve_tracer)) {")
@mut
def m8_ctor_future_charge_inverted(d):
    rep(d+SF, "if (_ptr->pending()) _ptr->resolve_tracer.charge(_ptr);", "if (!_ptr->pending()) _ptr->resolve_tracer.charge(_ptr);")
@mut
def m9_tracer_does_not_clear(d):
    rep(d+SF, '''            static_cast<resolve_cb *>(x)->_ptr = nullptr;
            return {};''', '''            (void)x;
            return {};''')
@mut
def m11_get_promise_no_charge(d):
    rep(d+SF, '''        auto p = _ptr->get_promise();
        _ptr->resolve_tracer.charge(_ptr);''', '''        auto p = _ptr->get_promise();''')
@mut
def m12_ctor_fn_no_charge(d):
    rep(d+SF, '''
        _ptr->resolve_tracer.charge(_ptr);
    }''', '''
    }''')
@mut
def m13_next_cleared_after_resume(d):
    rep(d+AW, '''            y->_next = nullptr;
            ret << y->resume();''', '''            ret << y->resume();
            y->_next = nullptr;''')
@mut
def m14_init_always_reallocates(d):
    rep(d+SF, "if (!_ptr) _ptr = std::make_shared<future_internal>();", "_ptr = std::make_shared<future_internal>();")
@mut
def m15_tracer_keeps_weak_only_when_no_waiters(d):
    # self reference dropped by the tracer only if it is the last node: here, clear happens but the callback also re-arms when chain continues
    rep(d+SF, '''       COCLS_VERIF_POINT("sf_set");
       _ptr = ptr;''', '''       COCLS_VERIF_POINT("sf_set");
       if (ptr.use_count() > 2) _ptr = ptr;''')
@mut
def m16_move_assign_leaks_old_state(d):
    rep(d+SF, '''    shared_future() = default;''', '''    shared_future() = default;
    shared_future(const shared_future &) = default;
    shared_future(shared_future &&) = default;
    shared_future &operator=(const shared_future &) = default;
    shared_future &operator=(shared_future &&o) noexcept {
        if (this != &o) new(&_ptr) std::shared_ptr<future_internal>(std::move(o._ptr));
        return *this;
    }''')
@mut
def m17_copy_assign_releases_before_copy(d):
    rep(d+SF, '''    shared_future() = default;''', '''    shared_future() = default;
    shared_future(const shared_future &) = default;
    shared_future(shared_future &&) = default;
    shared_future &operator=(shared_future &&) = default;
    shared_future &operator=(const shared_future &o) {
        _ptr.reset();
        _ptr = o._ptr;
        return *this;
    }''')
@mut
def m18_copy_assign_keeps_old_state(d):
    rep(d+SF, '''    shared_future() = default;''', '''    shared_future() = default;
    shared_future(const shared_future &) = default;
    shared_future(shared_future &&) = default;
    shared_future &operator=(shared_future &&) = default;
    shared_future &operator=(const shared_future &o) {
        if (!_ptr) _ptr = o._ptr;
        return *this;
    }''')
@mut
def r1_preserving_rewrite(d):
    rep(d+SF, '''       if (!(ptr->operator co_await()).subscribe(&ptr->resolve_tracer)) {
           COCLS_VERIF_POINT("sf_dec");
           _ptr = nullptr;
      }''', '''       future_internal &fut = *ptr;
       bool subscribed = fut.subscribe(&fut.resolve_tracer);
       if (subscribed) return;
       COCLS_VERIF_POINT("sf_dec");
       _ptr.reset();''')
@mut
def r2_preserving_rewrite_walk(d):
    rep(d+AW, '''            auto y = chain;
            chain = chain->_next;
            y->_next = nullptr;
            ret << y->resume();''', '''            awaiter *y = std::exchange(chain, chain->_next);
            y->_next = nullptr;
            auto sp = y->resume();
            ret << std::move(sp);''')
if __name__ == "__main__":
    name, dst = sys.argv[1], sys.argv[2]
    if name == "list":
        print(" ".join(M)); sys.exit(0)
    shutil.rmtree(dst, ignore_errors=True)
    shutil.copytree(SRC, dst)
    M[name](dst.rstrip("/") + "/")
