#!/bin/sh
# runs every mutation through the quick check inside a private copy of the clone
set -u
W=/var/tmp/ag-shared/scratch
mkdir -p $W; cp /var/tmp/ag-shared/verif/notes/C17_mutations/mutate.py $W/mutate.py
rm -rf $W/vm && cp -r /var/tmp/ag-shared/verif $W/vm
for m in ${@:-$(python3 $W/mutate.py list x)}; do
  python3 $W/mutate.py $m $W/mut || { echo "$m: MUTATION DID NOT APPLY"; continue; }
  ( cd $W/vm && rm -f replays/C17_* && COCLS_REPO=$W/mut VERIF_SEED=${SEED:-1} timeout 900 ./check C17 --tier quick > $W/out_$m.txt 2>&1 )
  echo "== $m"; grep -E "^VIOLATION|^check|KNOWN" $W/out_$m.txt | cut -c1-220
  for f in $W/vm/replays/C17_*.json; do [ -f "$f" ] && python3 -c "
import json,sys
d=json.load(open('$f'))
if 'case' in d: print('   replay', d['why'], d['signature'], 'ops=', d['case']['ops'], 'impl_tail=', d['impl_obs'][-2:])
else: print('   broken:', sorted(set((b.get('theorem') or b['kind']) for b in d['broken'])))
"; done
done
