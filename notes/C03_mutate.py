#!/usr/bin/env python3
import os, re, shutil, subprocess, sys
BASE=os.environ.get('MUT_BASE','/var/tmp/ag-c03/repo'); MUT='/var/tmp/ag-c03/mut'; V='/var/tmp/ag-c03/verif'
def sub(path, old, new, count=1):
    p=os.path.join(MUT,'src/cocls',path); s=open(p).read()
    assert old in s, (path, old)
    open(p,'w').write(s.replace(old,new,count))
MUTS = {
 'M1_chain_xchg_acquire': lambda: sub('awaiter.h','exchange(&ready_state, std::memory_order_acq_rel)','exchange(&ready_state, std::memory_order_acquire)'),
 'M2_subcr_cas_relaxed': lambda: sub('awaiter.h','while (!chain.compare_exchange_weak(_next, this, std::memory_order_release)) {','while (!chain.compare_exchange_weak(_next, this, std::memory_order_relaxed)) {'),
 'M3_drop_fence': lambda: sub('awaiter.h','                std::atomic_thread_fence(std::memory_order_acquire);\n',''),
 'M4_ready_relaxed': lambda: sub('future.h','return _awaiter.load(std::memory_order_acquire) == &awaiter::disabled;','return _awaiter.load(std::memory_order_relaxed) == &awaiter::disabled;'),
 'M5_busy_store_relaxed': lambda: sub('coro_storage.h','me->_busy.store(false, std::memory_order_release);','me->_busy.store(false, std::memory_order_relaxed);'),
 'M6_unlock_cas_relaxed': lambda: sub('mutex.h','compare_exchange_strong(x, nullptr, std::memory_order_release)','compare_exchange_strong(x, nullptr, std::memory_order_relaxed)'),
 'M7_bq_xchg_relaxed': lambda: sub('mutex.h','_requests.exchange(doorman(), std::memory_order_acquire)','_requests.exchange(doorman(), std::memory_order_relaxed)'),
 'M8_queue_push_outside_lock': lambda: sub('queue.h',"""        } else {
            _queue.emplace(std::forward<Args>(args)...);
            return false;""","""        } else {
            lk.unlock();
            _queue.emplace(std::forward<Args>(args)...);
            return false;"""),
 'M9_sched_access_outside_guard': lambda: sub('scheduler.h','''    promise remove(ident id) {
        std::lock_guard _(_mx);
        if (_scheduled.empty()) return {};''','''    promise remove(ident id) {
        if (_scheduled.empty()) return {};
        std::lock_guard _(_mx);'''),
 'M10_block_set_relaxed': lambda: sub('generator.h','_block.store(true, std::memory_order_release);','_block.store(true, std::memory_order_relaxed);'),
 'M11_busy_xchg_relaxed': lambda: sub('coro_storage.h','_busy.exchange(true, std::memory_order_acquire)','_busy.exchange(true, std::memory_order_relaxed)'),
 'M12_mutex_try_relaxed': lambda: sub('mutex.h','bool ok = _requests.compare_exchange_strong(n, doorman());','bool ok = _requests.compare_exchange_strong(n, doorman(), std::memory_order_relaxed);'),
 'M13_flag_store_relaxed': lambda: sub('awaiter.h','flag.store(true);','flag.store(true, std::memory_order_relaxed);'),
 'M14_mutex_touch_after_publish': lambda: sub('mutex.h','''        if (prev == nullptr) [[likely]] {''','''        if (aw->_next == nullptr) [[likely]] {'''),
 'M15_new_unknown_atomic': lambda: sub('future.h','''    bool ready() const {
        COCLS_VERIF_POINT("ready");''','''    bool ready() const {
        (void)_awaiter.load(std::memory_order_consume);
        COCLS_VERIF_POINT("ready");'''),
 'M16_publisher_position_unlocked': lambda: sub('publisher.h','''            std::lock_guard _(_mx);
            return _regs[h]._pos;''','''            return _regs[h]._pos;'''),
 'M17_mutex_ready_peeks_queue': lambda: sub('mutex.h','''    bool ready() {
''','''    bool ready() {
        if (_queue != nullptr) return false;
'''),
 'M18_mtsafe_busy_path_reads_capacity': lambda: sub('coro_storage.h','            owner = nullptr;\n','            owner = nullptr;\n            if (_capacity == 12345) owner = nullptr;\n'),
 'M19_subcr_touch_after_publish': lambda: sub('awaiter.h',"""            COCLS_VERIF_POINT("sub_retry");
        }
        return true;""","""            COCLS_VERIF_POINT("sub_retry");
        }
        return _handle_addr != nullptr || true;"""),
 'M20_generator_reads_result_before_wait': lambda: sub('generator.h','''            h.resume();
            //block thread if the generator still running
''','''            h.resume();
            if (_done) return;
            //block thread if the generator still running
'''),
 'M21_future_ready_reads_state': lambda: sub('future.h','return _awaiter.load(std::memory_order_acquire) == &awaiter::disabled;','return _state != State::not_value || _awaiter.load(std::memory_order_acquire) == &awaiter::disabled;'),
 'M22_unlock_order_via_constexpr_local_relaxed': lambda: sub('mutex.h','            if (_requests.compare_exchange_strong(x, nullptr, std::memory_order_release)) [[likely]] {','            constexpr auto unlock_order = std::memory_order_relaxed;\n            if (_requests.compare_exchange_strong(x, nullptr, unlock_order)) [[likely]] {'),
 'M23_order_from_runtime_variable': lambda: sub('coro_storage.h','            me->_busy.store(false, std::memory_order_release);','            std::memory_order o = sz > 4096 ? std::memory_order_relaxed : std::memory_order_release;\n            me->_busy.store(false, o);'),
 'M24_subcr_for_break_loop_relaxed': lambda: sub('awaiter.h',"""        while (!chain.compare_exchange_weak(_next, this, std::memory_order_release)) {
            if (_next == &ready_state) {""","""        for (;;) {
            if (chain.compare_exchange_weak(_next, this, std::memory_order_relaxed)) break;
            if (_next == &ready_state) {"""),
 'S9_orders_via_named_constants_and_for_break': lambda: (sub('awaiter.h',"""        while (!chain.compare_exchange_weak(_next, this, std::memory_order_release)) {
            if (_next == &ready_state) {""","""        static constexpr std::memory_order publish_order = std::memory_order_release;
        const std::memory_order refuse_order = std::memory_order_relaxed;
        for (;;) {
            if (chain.compare_exchange_weak(_next, this, publish_order, refuse_order)) break;
            if (_next == &ready_state) {"""), sub('coro_storage.h','            me->_busy.store(false, std::memory_order_release);','            constexpr auto hand_back = std::memory_order_release;\n            me->_busy.store(false, hand_back);')),
 'M25_claim_load_then_store': lambda: sub('future.h','        return _owner.exchange(nullptr, std::memory_order_relaxed);','        auto m = _owner.load(std::memory_order_relaxed);\n        if (m != nullptr) _owner.store(nullptr, std::memory_order_relaxed);\n        return m;'),
 'M26_awaitable_bool_reads_state_first': lambda: sub('future.h','        bool await_ready() noexcept {return this->_owner.ready();}','        bool await_ready() noexcept {return this->_owner._state != State::not_value || this->_owner.ready();}'),
 'M27_publisher_wakeup_buffer_in_place': lambda: sub('publisher.h','             for (awaiter *x: wk) x->resume();','             for (awaiter *x: _wakeup_buffer) x->resume();'),
 'M28_pool_notify_after_unlock': lambda: sub('thread_pool.h',"""            std::lock_guard _(_mx);
            _stopped = true;
            _cond.notify_all();""","""            {
                std::lock_guard _(_mx);
                _stopped = true;
            }
            _cond.notify_all();"""),
 'M29_discard_awaiter_member_after_publish': lambda: (sub('future.h','            waiting = (_fut.operator co_await()).subscribe(this);','            waiting = (_fut.operator co_await()).subscribe(this);\n            _subscribed = waiting;'), sub('future.h','    protected:\n        fut_type _fut;\n    };','    protected:\n        fut_type _fut;\n        bool _subscribed = false;\n    };')),
 'M30_publisher_regs_reference_after_unlock': lambda: sub('publisher.h',"""        std::size_t position(Handle h) {
            //_regs can be reallocated by a concurrent subscribe, so it must be read under the lock
            std::lock_guard _(_mx);
            return _regs[h]._pos;""","""        std::size_t position(Handle h) {
            const subreg_t *r;
            {
                std::lock_guard _(_mx);
                r = &_regs[h];
            }
            return r->_pos;"""),
 # must stay silent
 'S1_ready_seq_cst': lambda: sub('future.h','return _awaiter.load(std::memory_order_acquire) == &awaiter::disabled;','return _awaiter.load(std::memory_order_seq_cst) == &awaiter::disabled;'),
 'S2_rename_local': lambda: (sub('mutex.h','awaiter *req = _requests.exchange(doorman(), std::memory_order_acquire);','awaiter *taken = _requests.exchange(doorman(), std::memory_order_acquire);\n        awaiter *req = taken;'),),
 'S3_reorder_independent': lambda: sub('awaiter.h','''                _next = nullptr;
                //empty load, but enforce memory order acquire because this thread will
                //access to result
                COCLS_VERIF_LOG("fence_tgt", reinterpret_cast<long>(&chain), 0);
                std::atomic_thread_fence(std::memory_order_acquire);''','''                COCLS_VERIF_LOG("fence_tgt", reinterpret_cast<long>(&chain), 0);
                std::atomic_thread_fence(std::memory_order_acquire);
                _next = nullptr;'''),
 'S4_explicit_failure_order': lambda: sub('awaiter.h','while (!chain.compare_exchange_weak(_next, this, std::memory_order_release)) {','while (!chain.compare_exchange_weak(_next, this, std::memory_order_release, std::memory_order_relaxed)) {'),
 'S5_all_seq_cst_mutex': lambda: (sub('mutex.h','compare_exchange_strong(x, nullptr, std::memory_order_release)','compare_exchange_strong(x, nullptr)'), sub('mutex.h','_requests.exchange(doorman(), std::memory_order_acquire)','_requests.exchange(doorman())')),
 'S6_queue_lock_guard_to_unique': lambda: sub('queue.h',"""        std::lock_guard _(_mx);
        return _queue.empty();""","""        std::unique_lock guard(_mx);
        return _queue.empty();"""),
 'S8_unlock_reads_queue_again_as_owner': lambda: sub('mutex.h','        awaiter *first = _queue;\n','        awaiter *first = _queue;\n        if (_queue == nullptr) return;\n'),
 'S10_awaitable_bool_state_after_ready': lambda: sub('future.h','        bool await_ready() noexcept {return this->_owner.ready();}','        bool await_ready() noexcept {if (!this->_owner.ready()) return false; return this->_owner._state != State::not_value || true;}'),
 'S11_pointer_into_guarded_state_used_under_lock': lambda: sub('publisher.h',"""            std::lock_guard _(_mx);
            return _regs[h]._pos;""","""            std::lock_guard _(_mx);
            const subreg_t *r = &_regs[h];
            return r->_pos;"""),
 'S7_cas_fail_acquire_no_fence': lambda: (sub('awaiter.h','while (!chain.compare_exchange_weak(_next, this, std::memory_order_release)) {','while (!chain.compare_exchange_weak(_next, this, std::memory_order_release, std::memory_order_acquire)) {'), sub('awaiter.h','                std::atomic_thread_fence(std::memory_order_acquire);\n','')),
}
def run(name):
    shutil.rmtree(MUT, ignore_errors=True); shutil.copytree(BASE, MUT)
    try:
        MUTS[name]()
    except AssertionError as e:
        print('== %s PATTERN-NOT-FOUND %r' % (name, e)); return
    env=dict(os.environ, COCLS_REPO=MUT)
    p=subprocess.run(['./check','C03','--tier','quick'],cwd=V,env=env,stdout=subprocess.PIPE,stderr=subprocess.STDOUT)
    out=p.stdout.decode()
    lines=[l for l in out.splitlines() if l.startswith('VIOLATION') or l.startswith('check C03')]
    print('== %s rc=%d' % (name,p.returncode)); 
    for l in lines: print('   ',l[:300])
    sys.stdout.flush()
names = sys.argv[1:] or list(MUTS)
for n in names: run(n)
shutil.rmtree(MUT, ignore_errors=True)
