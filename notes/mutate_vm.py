import sys, os, shutil, subprocess
MUTS = {
 # name: (file, old, new)
 "m1_push_front": ("coro_queue.h", "return _queue.push_back(h);", "return _queue.push_front(h);"),
 "m2_no_flush": ("coro_queue.h", "            instance->flush_queue();\n            instance = prev;", "            instance = prev;"),
 "m3_pause_self_first": ("coro_queue.h", "        queue.push_back(h);\n        h = queue.front();", "        if (queue.empty()) return h;\n        queue.push_back(h);\n        h = queue.front();"),
 "m3b_pause_no_requeue": ("coro_queue.h", "        queue.push_back(h);\n        h = queue.front();", "        if (queue.empty()) return h;\n        auto hh = queue.front(); queue.pop_front(); queue.push_front(h); queue.push_front(hh);\n        h = queue.front();"),
 "m4_sp_dtor_immediate": ("suspend_point.h", "            if (coro_queue::is_active()) {\n                for (auto x: *this) {", "            if (false) {\n                for (auto x: *this) {"),
 "m5_await_self_first": ("suspend_point.h", "            std::coroutine_handle<> out = pop();\n            void *me_addr = h.address();", "            std::coroutine_handle<> out = pop();\n            coro_queue::instance->push(h);\n            void *me_addr = h.address();"),
 "m5b_await_pop_first": ("suspend_point.h", "            void **from = (_count_flag & 0x1)?_ext._handles:_local._handles;\n            return std::coroutine_handle<>::from_address(from[idx-1]);", "            void **from = (_count_flag & 0x1)?_ext._handles:_local._handles;\n            std::swap(from[0], from[idx-1]);\n            return std::coroutine_handle<>::from_address(from[idx-1]);"),
 "m6_flush_lifo": ("coro_queue.h", "                auto h = std::move(_queue.front());", "                auto h = std::move(_queue.back()); std::swap(_queue.front(), _queue.back());"),
 "m7_start_enqueue": ("async.h", "                h.resume();\n            }\n        };", "                coro_queue::resume(h);\n            }\n        };"),
 "m8_final_no_destroy_detached": ("async.h", "            me.destroy();\n            //return handle", "            if (f) me.destroy();\n            //return handle"),
 "m9_startp_consume": ("async.h", "        promise._future = p.claim();\n        if (promise._future) {\n            return start_coro();\n        }  else {\n            return nullptr;", "        promise._future = p.claim();\n        if (promise._future) {\n            return start_coro();\n        }  else {\n            start_coro(); return nullptr;"),
 "m10_exc_as_value": ("async.h", "        if (_future) _future->set(std::current_exception());", "        if (_future) { if constexpr(std::is_void_v<T>) _future->set(); else _future->set(T()); }"),
 "m11_final_queue_all": ("async.h", "            return sp.pop();\n        }\n#endif", "            return std::noop_coroutine();\n        }\n#endif"),
 "m12_final_resolve_after_destroy_order": ("async.h", "            return sp.pop();\n        }\n#endif", "            auto hh = sp.pop(); sp.clear(); return hh;\n        }\n#endif"),
 "m13_coawait_double": ("async.h", "            p._future = this;\n            return start_handle;", "            p._future = this;\n            coro_queue::instance->push(h);\n            return start_handle;"),
 "m14_dtor_no_destroy": ("async.h", "        if (_h) _h.destroy();", "        (void)_h;"),
 "ok1_flush_rewrite": ("coro_queue.h", "            while (!_queue.empty()) {\n                auto h = std::move(_queue.front());", "            for (;_queue.size() != 0;) {\n                std::coroutine_handle<> h = _queue.front();"),
 "ok2_pause_swap": ("coro_queue.h", "        auto &queue = coro_queue::instance->_queue;\n", "        if (coro_queue::instance) return coro_queue::swap_coroutine(h);\n        auto &queue = coro_queue::instance->_queue;\n"),
}
name = sys.argv[1]
f, old, new = MUTS[name]
dst = "/var/tmp/ag-vm/muts/" + name
if os.path.exists(dst): shutil.rmtree(dst)
shutil.copytree("/var/tmp/ag-vm/repo", dst)
p = os.path.join(dst, "src/cocls", f)
s = open(p).read()
assert s.count(old) == 1, (name, s.count(old))
open(p, "w").write(s.replace(old, new))
print(dst)
