#include <cocls/suspend_point.h>
#include <cstdio>
#include <new>
#include <cstdlib>
static bool fail_next = false;
void *operator new[](std::size_t sz) { if (fail_next) { fail_next = false; throw std::bad_alloc(); } return std::malloc(sz); }
void operator delete[](void *p) noexcept { std::free(p); }
struct tco { struct promise_type { tco get_return_object() { return {std::coroutine_handle<promise_type>::from_promise(*this)}; }
  std::suspend_always initial_suspend() noexcept { return {}; } std::suspend_always final_suspend() noexcept { return {}; }
  void return_void() {} void unhandled_exception() {} }; std::coroutine_handle<promise_type> h; };
static int cnt[8];
tco co(int i) { for (;;) { cnt[i]++; co_await std::suspend_always{}; } }
int main() {
    tco c[5]; for (int i = 0; i < 5; i++) c[i] = co(i);
    {
        cocls::suspend_point<void> a, b;
        a << std::coroutine_handle<>(c[0].h); a << std::coroutine_handle<>(c[1].h);   // a: 2 inline
        b << std::coroutine_handle<>(c[2].h); b << std::coroutine_handle<>(c[3].h); b << std::coroutine_handle<>(c[4].h);  // b: 3
        fail_next = true;
        try { a << std::move(b); } catch (std::bad_alloc &) { std::printf("bad_alloc during merge: a.size=%zu b.size=%zu\n", a.size(), b.size()); }
        fail_next = false;
    }
    for (int i = 0; i < 5; i++) std::printf("coroutine %d resumed %d time(s)\n", i, cnt[i]);
}
