# usage: python3 notes/cell_mutations.py <m1..m10|p1..p5> <copy of the repo>; then COCLS_REPO=<copy> ./check C01|C02 --tier quick (see notes/C01.md, notes/C02.md)
import sys
name, root = sys.argv[1], sys.argv[2]
A = root + '/src/cocls/awaiter.h'; F = root + '/src/cocls/future.h'; Y = root + '/src/cocls/async.h'
def rep(path, old, new):
    s = open(path).read(); assert old in s, name; open(path, 'w').write(s.replace(old, new))
if name == 'm1':
    s = open(A).read(); a = s.index("            if (_next == &ready_state) {"); b = s.index("            COCLS_VERIF_POINT(\"sub_retry\");")
    open(A, 'w').write(s[:a] + s[b:])
elif name == 'm2':
    rep(A, "            chain = chain->_next;\n            y->_next = nullptr;\n            ret << y->resume();\n",
           "            ret << y->resume();\n            chain = y->_next;\n            y->_next = nullptr;\n")
elif name == 'm3':
    rep(A, "        return resume_chain_lk(chain.exchange(&ready_state, std::memory_order_acq_rel));",
           "        awaiter *cur = chain.load(std::memory_order_acquire);\n        chain.store(&ready_state, std::memory_order_release);\n        return resume_chain_lk(cur);")
elif name == 'm4':
    rep(Y, "            suspend_point<void> sp = f ? f->resolve():suspend_point<void>();\n            //now we can destroy our frame\n            me.destroy();\n",
           "            me.destroy();\n            suspend_point<void> sp = f ? f->resolve():suspend_point<void>();\n")
elif name == 'm5':
    rep(A, "        flag.store(true);\n        flag.notify_all();", "        flag.notify_all();\n        flag.store(true);")
elif name == 'm7':
    rep(A, "        set_handle(h);\n        return this->_owner.subscribe(this);", "        set_handle(h);\n        this->_owner.subscribe(this);\n        return true;")
elif name == 'm8':
    rep(A, "        while (chain) {\n            COCLS_VERIF_POINT(\"walk\");", "        while (chain && (chain->_next || !ret.empty())) {\n            COCLS_VERIF_POINT(\"walk\");")
elif name == 'm9':
    rep(F, "            m->set(std::forward<Args>(args)...);\n            return suspend_point<bool>(m->resolve(), true);\n        }\n        return suspend_point<bool>(false);\n    }\n\n    ///Set value DropTag",
           "            auto sp = m->resolve();\n            m->set(std::forward<Args>(args)...);\n            return suspend_point<bool>(std::move(sp), true);\n        }\n        return suspend_point<bool>(false);\n    }\n\n    ///Set value DropTag")
elif name == 'm10':
    rep(A, "            auto y = chain;\n            chain = chain->_next;\n            y->_next = nullptr;\n            ret << y->resume();",
           "            awaiter *cur = chain;\n            awaiter *nx = cur->_next;\n            cur->_next = nullptr;\n            chain = nx;\n            suspend_point<void> one = cur->resume();\n            ret << std::move(one);")
    rep(A, "        while (!chain.compare_exchange_weak(_next, this, std::memory_order_release)) {\n            if (_next == &ready_state) {",
           "        while (!chain.compare_exchange_strong(_next, this, std::memory_order_release, std::memory_order_relaxed)) {\n            if (&ready_state == _next) {")
# promise-object mutations (C01 part prom)
elif name == 'p1':   # operator= forgets to drop the old future
    rep(F, "            set_value(drop);\n            _owner = other.claim();", "            _owner = other.claim();")
elif name == 'p2':   # move constructor copies the pointer without claiming
    rep(F, "    promise(promise &&other):_owner(other.claim()) {}", "    promise(promise &&other):_owner(other._owner.load()) {}")
elif name == 'p3':   # self-assignment guard removed
    rep(F, "        if (this != &other) {\n            set_value(drop);", "        {\n            set_value(drop);")
elif name == 'p4':   # drop does not resolve
    rep(F, "    suspend_point<bool> set_value(DropTag) {\n        auto m = claim();\n        if (m) {\n            return suspend_point<bool>(m->resolve(), true);",
           "    suspend_point<bool> set_value(DropTag) {\n        auto m = claim();\n        if (m) {\n            return suspend_point<bool>(true);")
elif name == 'p5':   # behaviour preserving: operator= written with explicit claim/resolve
    rep(F, "            set_value(drop);\n            _owner = other.claim();", "            if (auto m = claim()) m->resolve();\n            auto taken = other.claim();\n            _owner.store(taken);")
elif name == 'r1':   # refused branch no longer resets _next (assert kept): a refused awaiter aborts on its next use
    rep(A, "            if (_next == &ready_state) {\n                _next = nullptr;\n", "            if (_next == &ready_state) {\n")
elif name == 'r2':   # resume_chain_lk no longer clears the node's link before resume()
    rep(A, "            chain = chain->_next;\n            y->_next = nullptr;\n", "            chain = chain->_next;\n")
else:
    raise SystemExit('unknown ' + name)
# re-used awaiters (C02 part seq_aw): run as  python3 notes/cell_mutations.py r2 <copy>  (handled below because the table above exits on unknown names)
